// Canary derived from the demonstration test of the seeded change /verif/seeded/C18_b4 (fails on code with that defect, passes on the original).
package locking_test

import (
	"math/big"
	"testing"
	"time"

	"cosmossdk.io/math"
	"github.com/cosmos/cosmos-sdk/codec"
	codectypes "github.com/cosmos/cosmos-sdk/codec/types"
	"github.com/cosmos/cosmos-sdk/crypto/keys/secp256k1"
	sdk "github.com/cosmos/cosmos-sdk/types"
	"github.com/ethereum/go-ethereum/common"
	"github.com/ethereum/go-ethereum/core/types/goattypes"
	keepertest "github.com/goatnetwork/goat/testutil/keeper"
	"github.com/goatnetwork/goat/testutil/mock"
	locking "github.com/goatnetwork/goat/x/locking/module"
	"github.com/goatnetwork/goat/x/locking/types"
	"github.com/stretchr/testify/assert"
	"github.com/stretchr/testify/require"
	"go.uber.org/mock/gomock"
)

// TestSeedDemo checks that the derived locking threshold list survives an
// export/import round trip when a token was delisted from the voting power
// (weight set to 0) while its locking threshold is still in force, and that a
// jailed validator is treated the same by the original and the re-imported
// chain.
func TestVerifReplay(t *testing.T) {
	ctl := gomock.NewController(t)
	account := mock.NewMockAccountKeeper(ctl)
	cdc := codec.NewProtoCodec(codectypes.NewInterfaceRegistry())

	native := common.Address{}
	other := common.HexToAddress("cafebeefcafebeefcafebeefcafebeefcafebeef")
	nativeDenom, otherDenom := types.TokenDenom(native), types.TokenDenom(other)

	// the running chain
	k1, ctx1 := keepertest.LockingKeeper(t, account)
	locking.InitGenesis(ctx1, k1, *types.DefaultGenesis())

	// two tokens, both with a weight and a threshold
	require.NoError(t, k1.UpdateTokens(ctx1,
		[]*goattypes.UpdateTokenWeightRequest{{Token: native, Weight: 1}, {Token: other, Weight: 12}},
		[]*goattypes.UpdateTokenThresholdRequest{
			{Token: native, Threshold: big.NewInt(5)}, {Token: other, Threshold: big.NewInt(10)},
		}))
	// later on the second token is removed from the voting power, the threshold is kept
	require.NoError(t, k1.UpdateTokens(ctx1,
		[]*goattypes.UpdateTokenWeightRequest{{Token: other, Weight: 0}}, nil))

	// a jailed validator which only holds the native token
	pubkey := secp256k1.GenPrivKey().PubKey().(*secp256k1.PubKey)
	valAddr := sdk.ConsAddress(pubkey.Address())
	require.NoError(t, k1.Validators.Set(ctx1, valAddr, types.Validator{
		Pubkey:      pubkey.Key,
		Reward:      math.ZeroInt(),
		GasReward:   math.ZeroInt(),
		Status:      types.Downgrade,
		Locking:     sdk.NewCoins(sdk.NewCoin(nativeDenom, math.NewInt(5))),
		JailedUntil: time.Unix(100, 0).UTC(),
	}))

	thr1, err := k1.Threshold.Get(ctx1)
	require.NoError(t, err)
	require.Equal(t, sdk.NewCoins(
		sdk.NewCoin(nativeDenom, math.NewInt(5)), sdk.NewCoin(otherDenom, math.NewInt(10))).String(), thr1.List.String())

	// export and import to a fresh chain
	exported1 := locking.ExportGenesis(ctx1, k1)
	raw1 := cdc.MustMarshalJSON(exported1)

	var imported types.GenesisState
	cdc.MustUnmarshalJSON(raw1, &imported)

	k2, ctx2 := keepertest.LockingKeeper(t, account)
	locking.InitGenesis(ctx2, k2, imported)

	// the second export is the same as the first
	raw2 := cdc.MustMarshalJSON(locking.ExportGenesis(ctx2, k2))
	require.JSONEq(t, string(raw1), string(raw2))

	// the derived threshold list is the same
	thr2, err := k2.Threshold.Get(ctx2)
	require.NoError(t, err)
	assert.Equal(t, thr1.List.String(), thr2.List.String(), "threshold list is changed by export/import")

	// the same lock request has the same effect on both chains: the validator
	// doesn't have enough of the second token, it should stay in jail
	lockReq := []*goattypes.LockRequest{{Validator: common.BytesToAddress(valAddr), Token: native, Amount: big.NewInt(1)}}
	blockTime := time.Unix(1000, 0).UTC()
	require.NoError(t, k1.Lock(ctx1.WithBlockTime(blockTime), lockReq))
	require.NoError(t, k2.Lock(ctx2.WithBlockTime(blockTime), lockReq))

	val1, err := k1.Validators.Get(ctx1, valAddr)
	require.NoError(t, err)
	val2, err := k2.Validators.Get(ctx2, valAddr)
	require.NoError(t, err)
	require.Equal(t, types.Downgrade, val1.Status)
	require.Equal(t, val1.Status, val2.Status, "validator status diverges after export/import")
	require.Equal(t, val1.Power, val2.Power)
}
