// Canary derived from the demonstration test of the seeded change /verif/seeded/C07_b4 (fails on code with that defect, passes on the original).
package keeper_test

import (
	"fmt"
	"testing"

	errorsmod "cosmossdk.io/errors"
	storetypes "cosmossdk.io/store/types"
	"github.com/ethereum/go-ethereum/common"
	keepertest "github.com/goatnetwork/goat/testutil/keeper"
	"github.com/goatnetwork/goat/testutil/mock"
	"github.com/goatnetwork/goat/x/bitcoin/keeper"
	"github.com/goatnetwork/goat/x/bitcoin/types"
	relayer "github.com/goatnetwork/goat/x/relayer/types"
	"github.com/stretchr/testify/require"
	"go.uber.org/mock/gomock"
)

// TestSeedDemo: executing the same (failing) MsgNewDeposits on the same state
// must always give the same result code and the same gas, whatever the map
// iteration order of the process is.
//
// The message carries two block headers that are both bad, in different ways:
// height 300 was never voted (store lookup fails: code 1), height 200 was voted
// but the submitted header does not hash to the voted block hash (code 18).
func TestVerifReplay(t *testing.T) {
	ctl := gomock.NewController(t)
	defer ctl.Finish()

	relayerKeeper := mock.NewMockRelayerKeeper(ctl)
	k, ctx, _ := keepertest.BitcoinKeeper(t, relayerKeeper)

	testKey := relayer.PublicKey{Key: &relayer.PublicKey_Secp256K1{
		Secp256K1: common.Hex2Bytes("0383560def84048edefe637d0119a4428dd12a42765a118b2bf77984057633c50e"),
	}}
	relayerKeeper.EXPECT().HasPubkey(gomock.Any(), gomock.Any()).Return(true, nil).AnyTimes()
	relayerKeeper.EXPECT().VerifyNonProposal(gomock.Any(), gomock.Any()).Return(nil, nil).AnyTimes()

	const votedHeight, unvotedHeight = 200, 300
	require.NoError(t, k.BlockHashes.Set(ctx, votedHeight,
		common.Hex2Bytes("38fb77a25662f9eda5abef8a407ba45e8c3374b5a0724cfa9762f1f9cbf627e2")))
	require.NoError(t, k.BlockTip.Set(ctx, votedHeight))
	require.NoError(t, k.EthTxQueue.Set(ctx, types.EthTxQueue{}))

	// a well-formed header which is not the voted one of height 200
	header := common.Hex2Bytes("000000207ae3c7018c13605066e068ed553a608f614744c9cf4cf291a08e952308e29337b2b96e4e0ae9becd5479875811c2175251753b17db4eeb81a2cc2217c37455b987400a67ffff7f2000000000")
	rawTx := common.Hex2Bytes("0200000001e15e44fc827b0e1a3178b6e07f67e8339faae54e4241e5fa5c1ed61786a84bda0000000000fdffffff020dc74c0001000000225120098ad136e9ed8106af7c1b6b4934011f320b30f6e18871917e0d6fb1bdcb5d1400e1f50500000000220020f7608234b4bc67678cc5498dfe7db5dfda221d3ff669f1d9ee89fbcf14d104f366000000")
	proof := common.Hex2Bytes("4930ac654c3c2e487fcc2106a51ecaaf4188093686dfffcfe880798044aadc02")
	evmAddress := common.HexToAddress("0xbC122aEc3EdD80433dfE3c708b2E549B5A7Ab96E")

	newDeposit := func(height uint64) *types.Deposit {
		return &types.Deposit{
			Version: 0, BlockNumber: height, TxIndex: 1, NoWitnessTx: rawTx, OutputIndex: 1,
			IntermediateProof: proof, EvmAddress: evmAddress[:], RelayerPubkey: &testKey,
		}
	}

	req := &types.MsgNewDeposits{
		Proposer: "goat1xa56637tjn857jyg2plgvhdclzmr4crxzn5xus",
		BlockHeaders: []*types.BlockHeader{
			{Height: unvotedHeight, Raw: header},
			{Height: votedHeight, Raw: header},
		},
		Deposits: []*types.Deposit{newDeposit(unvotedHeight), newDeposit(votedHeight)},
	}

	msgServer := keeper.NewMsgServerImpl(k)

	// every run stands for a replica (or a re-execution) handling the same tx on the same state
	outcomes := make(map[string]int)
	for i := 0; i < 256; i++ {
		replica, _ := ctx.CacheContext()
		replica = replica.WithGasMeter(storetypes.NewInfiniteGasMeter())

		_, err := msgServer.NewDeposits(replica, req)
		require.Error(t, err)

		codespace, code, _ := errorsmod.ABCIInfo(err, false)
		outcomes[fmt.Sprintf("codespace=%s code=%d gas=%d", codespace, code, replica.GasMeter().GasConsumed())]++
	}
	require.Len(t, outcomes, 1, "the same tx on the same state gave different results: %v", outcomes)
}
