// Canary derived from the demonstration test of the seeded change /verif/seeded/C03_b3 (fails on code with that defect, passes on the original).
package keeper_test

import (
	"bytes"
	"testing"

	"github.com/btcsuite/btcd/chaincfg"
	"github.com/btcsuite/btcd/chaincfg/chainhash"
	"github.com/btcsuite/btcd/txscript"
	"github.com/btcsuite/btcd/wire"
	"github.com/ethereum/go-ethereum/common"
	goatcrypto "github.com/goatnetwork/goat/pkg/crypto"
	keepertest "github.com/goatnetwork/goat/testutil/keeper"
	"github.com/goatnetwork/goat/testutil/mock"
	"github.com/goatnetwork/goat/x/bitcoin/types"
	relayer "github.com/goatnetwork/goat/x/relayer/types"
	"github.com/stretchr/testify/require"
	"go.uber.org/mock/gomock"
)

// TestSeedDemo: C03, coinbase maturity clause. A deposit that is the first
// (coinbase) transaction of its block must have at least 100 voted blocks
// above it, whatever the height of the voted tip is - including a young chain
// of voted hashes whose tip is still below 100.
func TestVerifReplay(t *testing.T) {
	ctl := gomock.NewController(t)
	defer ctl.Finish()

	relayerKeeper := mock.NewMockRelayerKeeper(ctl)
	k, ctx, _ := keepertest.BitcoinKeeper(t, relayerKeeper)

	testKey := relayer.PublicKey{Key: &relayer.PublicKey_Secp256K1{
		Secp256K1: common.Hex2Bytes("0383560def84048edefe637d0119a4428dd12a42765a118b2bf77984057633c50e"),
	}}
	evmAddress := common.HexToAddress("0xbC122aEc3EdD80433dfE3c708b2E549B5A7Ab96E")
	relayerKeeper.EXPECT().HasPubkey(gomock.Any(), relayer.EncodePublicKey(&testKey)).Return(true, nil).AnyTimes()

	// a coinbase transaction paying 0.01 BTC to the v0 deposit script
	addr, err := types.DepositAddressV0(&testKey, evmAddress.Bytes(), &chaincfg.RegressionNetParams)
	require.NoError(t, err)
	pkScript, err := txscript.PayToAddrScript(addr)
	require.NoError(t, err)

	const value = 1_000_000
	tx := wire.NewMsgTx(2)
	tx.AddTxIn(wire.NewTxIn(wire.NewOutPoint(&chainhash.Hash{}, wire.MaxPrevOutIndex), []byte{0x5a, 0x00}, nil))
	tx.AddTxOut(wire.NewTxOut(value, pkScript))
	var raw bytes.Buffer
	require.NoError(t, tx.SerializeNoWitness(&raw))
	txid := goatcrypto.DoubleSHA256Sum(raw.Bytes())

	// the block holds the coinbase only: the merkle root is the txid and the path is empty
	header := make([]byte, types.RawBtcHeaderSize)
	header[0] = 0x20
	copy(header[36:68], txid)
	blockHash := goatcrypto.DoubleSHA256Sum(header)

	const height = 10
	require.NoError(t, k.BlockHashes.Set(ctx, height, blockHash))

	deposit := &types.Deposit{
		Version:       0,
		BlockNumber:   height,
		TxIndex:       0,
		NoWitnessTx:   raw.Bytes(),
		OutputIndex:   0,
		EvmAddress:    evmAddress.Bytes(),
		RelayerPubkey: &testKey,
	}
	require.NoError(t, deposit.Validate())
	headers := map[uint64][]byte{height: header}

	// immature at every tip below height+100, in particular while the voted tip itself is below 100
	for _, tip := range []uint64{height, height + 1, 50, 99, 100, height + 99} {
		require.NoError(t, k.BlockTip.Set(ctx, tip))
		res, err := k.VerifyDeposit(ctx, headers, deposit)
		require.Errorf(t, err, "coinbase deposit at height %d accepted with the voted tip at %d", height, tip)
		require.Nil(t, res)
	}

	// mature once 100 voted blocks lie above it
	require.NoError(t, k.BlockTip.Set(ctx, height+100))
	res, err := k.VerifyDeposit(ctx, headers, deposit)
	require.NoError(t, err)
	require.Equal(t, &types.DepositExecReceipt{
		Address: evmAddress.Bytes(),
		Txid:    txid,
		Txout:   0,
		Amount:  value,
		Tax:     0,
	}, res)
}
