package keeper_test

// Canary input for C12 (x/locking DistributeReward): six validators of equal power and pools of 10^18 / 3*10^18.
// With round-half-even power shares (LegacyDec.Quo) the six shares add up to more than the pool.

import (
	"testing"

	"cosmossdk.io/math"
	abci "github.com/cometbft/cometbft/abci/types"
	tmtypes "github.com/cometbft/cometbft/proto/tendermint/types"
	sdk "github.com/cosmos/cosmos-sdk/types"
	keepertest "github.com/goatnetwork/goat/testutil/keeper"
	"github.com/goatnetwork/goat/testutil/mock"
	"github.com/goatnetwork/goat/x/locking/types"
	"go.uber.org/mock/gomock"
)

func TestVerifReplay(t *testing.T) {
	ctl := gomock.NewController(t)
	k, ctx := keepertest.LockingKeeper(t, mock.NewMockAccountKeeper(ctl))
	var votes []abci.VoteInfo
	for i := 0; i < 6; i++ {
		addr := sdk.ConsAddress(append(make([]byte, 19), byte(i+1)))
		if err := k.Validators.Set(ctx, addr, types.Validator{Power: 100, Reward: math.ZeroInt(), GasReward: math.ZeroInt(), Status: types.Active}); err != nil {
			t.Fatal(err)
		}
		votes = append(votes, abci.VoteInfo{Validator: abci.Validator{Address: addr, Power: 100}, BlockIdFlag: tmtypes.BlockIDFlagCommit})
	}
	goat := math.NewIntFromUint64(1e18)
	gas := math.NewIntFromUint64(3e18)
	if err := k.RewardPool.Set(ctx, types.RewardPool{Goat: goat, Gas: gas, Remain: math.ZeroInt()}); err != nil {
		t.Fatal(err)
	}
	ctx2 := ctx.WithBlockHeight(10).WithVoteInfos(votes)
	if err := k.DistributeReward(ctx2); err != nil {
		t.Skipf("rejected: %v", err)
	}
	pool, err := k.RewardPool.Get(ctx2)
	if err != nil {
		t.Fatal(err)
	}
	if pool.Goat.IsNegative() || pool.Gas.IsNegative() || pool.Goat.GT(goat) || pool.Gas.GT(gas) {
		t.Fatalf("VERIF-REPLAY-VIOLATED pools after distribution: goat=%s gas=%s (six equal validators, pools 1e18 / 3e18)", pool.Goat, pool.Gas)
	}
}
