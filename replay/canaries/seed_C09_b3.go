// Canary derived from the demonstration test of the seeded change /verif/seeded/C09_b3 (fails on code with that defect, passes on the original).
package keeper_test

import (
	"bytes"
	"context"
	"testing"

	"cosmossdk.io/math"
	"github.com/ethereum/go-ethereum/beacon/engine"
	"github.com/ethereum/go-ethereum/common"
	keepertest "github.com/goatnetwork/goat/testutil/keeper"
	"github.com/goatnetwork/goat/testutil/mock"
	"github.com/goatnetwork/goat/x/goat/types"
	"github.com/stretchr/testify/require"
	"go.uber.org/mock/gomock"
)

// TestSeedDemo: C09, "if the engine errors or answers INVALID at any call the
// consensus block is not committed". Finalized runs in EndBlock; a nil return
// lets the consensus block commit. The engine may answer INVALID without any
// validation message (goat-geth's engine.STATUS_INVALID is exactly that), and
// such an answer must fail the block like any other INVALID.
func TestVerifReplay(t *testing.T) {
	head := types.ExecutionPayload{
		ParentHash:    bytes.Repeat([]byte{0x11}, 32),
		FeeRecipient:  bytes.Repeat([]byte{0x22}, 20),
		StateRoot:     bytes.Repeat([]byte{0x33}, 32),
		ReceiptsRoot:  bytes.Repeat([]byte{0x44}, 32),
		LogsBloom:     make([]byte, 256),
		PrevRandao:    bytes.Repeat([]byte{0x55}, 32),
		BlockNumber:   7,
		GasLimit:      30_000_000,
		Timestamp:     1_700_000_000,
		ExtraData:     make([]byte, 33),
		BaseFeePerGas: math.NewInt(7),
		BlockHash:     bytes.Repeat([]byte{0x66}, 32),
		BeaconRoot:    bytes.Repeat([]byte{0x77}, 32),
		Requests:      [][]byte{},
	}
	headHash := common.BytesToHash(head.BlockHash)
	parentHash := common.BytesToHash(head.ParentHash)

	reason := "bad block"
	type answer struct {
		status string
		msg    *string
	}

	cases := []struct {
		name       string
		newPayload answer
		forkChoice *answer // nil: the call must not happen
		wantErr    bool
	}{
		{"all valid", answer{engine.VALID, nil}, &answer{engine.VALID, nil}, false},
		{"syncing is tolerated", answer{engine.SYNCING, nil}, &answer{engine.SYNCING, nil}, false},
		{"NewPayload INVALID with message", answer{engine.INVALID, &reason}, nil, true},
		{"ForkchoiceUpdated INVALID with message", answer{engine.VALID, nil}, &answer{engine.INVALID, &reason}, true},
		{"NewPayload INVALID without message", answer{engine.INVALID, nil}, nil, true},
		{"ForkchoiceUpdated INVALID without message", answer{engine.VALID, nil}, &answer{engine.INVALID, nil}, true},
	}

	for _, tc := range cases {
		t.Run(tc.name, func(t *testing.T) {
			ctl := gomock.NewController(t)
			defer ctl.Finish()

			ethClient := mock.NewMockEngineClient(ctl)
			k, ctx, _ := keepertest.GoatKeeper(t,
				mock.NewMockBitcoinKeeper(ctl), mock.NewMockLockingKeeper(ctl),
				mock.NewMockRelayerKeeper(ctl), mock.NewMockAccountKeeper(ctl), ethClient)
			require.NoError(t, k.Block.Set(ctx, head))

			// the engine is told exactly the recorded head ...
			ethClient.EXPECT().NewPayloadV4(gomock.Any(), gomock.Any(), gomock.Any(), gomock.Any(), gomock.Any()).
				DoAndReturn(func(_ context.Context, data *engine.ExecutableData, hashes []common.Hash, root common.Hash, reqs [][]byte) (*engine.PayloadStatusV1, error) {
					require.Equal(t, headHash, data.BlockHash)
					require.Equal(t, parentHash, data.ParentHash)
					require.Equal(t, head.BlockNumber, data.Number)
					require.Equal(t, common.BytesToHash(head.BeaconRoot), root)
					require.Empty(t, hashes)
					return &engine.PayloadStatusV1{Status: tc.newPayload.status, ValidationError: tc.newPayload.msg}, nil
				}).Times(1)

			// ... with its parent as safe and finalised block
			if tc.forkChoice != nil {
				ethClient.EXPECT().ForkchoiceUpdatedV3(gomock.Any(), gomock.Any(), gomock.Any()).
					DoAndReturn(func(_ context.Context, st *engine.ForkchoiceStateV1, attr *engine.PayloadAttributes) (engine.ForkChoiceResponse, error) {
						require.Equal(t, headHash, st.HeadBlockHash)
						require.Equal(t, parentHash, st.SafeBlockHash)
						require.Equal(t, parentHash, st.FinalizedBlockHash)
						require.Nil(t, attr)
						return engine.ForkChoiceResponse{
							PayloadStatus: engine.PayloadStatusV1{Status: tc.forkChoice.status, ValidationError: tc.forkChoice.msg},
						}, nil
					}).Times(1)
			}

			err := k.Finalized(ctx)
			if tc.wantErr {
				require.Error(t, err, "engine answered INVALID: the consensus block must not be committed")
			} else {
				require.NoError(t, err)
			}
		})
	}
}
