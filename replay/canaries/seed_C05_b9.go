// Canary derived from the demonstration test of the seeded change /verif/seeded/C05_b9 (fails on code with that defect, passes on the original).
package keeper_test

import (
	"bytes"
	"testing"

	"github.com/btcsuite/btcd/chaincfg/chainhash"
	"github.com/btcsuite/btcd/txscript"
	"github.com/btcsuite/btcd/wire"
	"github.com/ethereum/go-ethereum/common"
	goatcrypto "github.com/goatnetwork/goat/pkg/crypto"
	keepertest "github.com/goatnetwork/goat/testutil/keeper"
	"github.com/goatnetwork/goat/testutil/mock"
	"github.com/goatnetwork/goat/x/bitcoin/keeper"
	"github.com/goatnetwork/goat/x/bitcoin/types"
	relayertypes "github.com/goatnetwork/goat/x/relayer/types"
	"github.com/stretchr/testify/require"
	"go.uber.org/mock/gomock"
)

// TestSeedDemo: a withdrawal may only become processing through a transaction
// whose single extra (change) output pays the current relayer key. A change
// output carrying the relayer's 20-byte key hash under another witness version
// (or another push opcode) is NOT a payment to the relayer key.
func TestVerifReplay(t *testing.T) {
	ctl := gomock.NewController(t)
	defer ctl.Finish()

	rk := mock.NewMockRelayerKeeper(ctl)
	rk.EXPECT().VerifyProposal(gomock.Any(), gomock.Any()).Return(uint64(100), nil).AnyTimes()
	rk.EXPECT().SetProposalSeq(gomock.Any(), gomock.Any()).Return(nil).AnyTimes()
	rk.EXPECT().UpdateRandao(gomock.Any(), gomock.Any()).Return(nil).AnyTimes()

	k, ctx, _ := keepertest.BitcoinKeeper(t, rk)
	msgServer := keeper.NewMsgServerImpl(k)

	rawKey := common.Hex2Bytes("037e7bee29c1956152e308d1310823295d720b4cef9e1118726eb1705ffc5a4701")
	require.NoError(t, k.Pubkey.Set(ctx, relayertypes.PublicKey{
		Key: &relayertypes.PublicKey_Secp256K1{Secp256K1: rawKey},
	}))
	keyHash := goatcrypto.Hash160Sum(rawKey)

	const userAddress = "bcrt1qy728d54p6ftlpnwvfpjpkdne6sg3saq4qzezpx"
	userScript, err := types.DecodeBtcAddress(userAddress, types.BitcoinNetworks["regtest"])
	require.NoError(t, err)

	newWithdrawal := func(id uint64) {
		require.NoError(t, k.Withdrawals.Set(ctx, id, types.Withdrawal{
			Address:       userAddress,
			RequestAmount: 1e5,
			MaxTxPrice:    50,
			Status:        types.WITHDRAWAL_STATUS_PENDING,
		}))
	}

	// process runs the message like a real tx: state is kept only on success
	process := func(id uint64, changeScript []byte) error {
		tx := wire.NewMsgTx(2)
		tx.AddTxIn(wire.NewTxIn(wire.NewOutPoint(&chainhash.Hash{1, 2, 3}, 0), nil, nil))
		tx.AddTxOut(wire.NewTxOut(9e4, userScript))
		tx.AddTxOut(wire.NewTxOut(5e8, changeScript))
		var buf bytes.Buffer
		require.NoError(t, tx.SerializeNoWitness(&buf))

		req := &types.MsgProcessWithdrawal{
			Proposer:    "goat1xa56637tjn857jyg2plgvhdclzmr4crxzn5xus",
			Vote:        &relayertypes.Votes{Signature: make([]byte, goatcrypto.SignatureLength)},
			Id:          []uint64{id},
			NoWitnessTx: buf.Bytes(),
			TxFee:       uint64(buf.Len()), // 1 sat/byte
		}
		cctx, write := ctx.CacheContext()
		_, err := msgServer.ProcessWithdrawal(cctx, req)
		if err == nil {
			write()
		}
		return err
	}

	status := func(id uint64) types.WithdrawalStatus {
		wd, err := k.Withdrawals.Get(ctx, id)
		require.NoError(t, err)
		return wd.Status
	}

	// control: a genuine p2wpkh change output for the relayer key is accepted
	newWithdrawal(1)
	good := append([]byte{txscript.OP_0, txscript.OP_DATA_20}, keyHash...)
	require.NoError(t, process(1, good))
	require.Equal(t, types.WITHDRAWAL_STATUS_PROCESSING, status(1))

	// the same 20 bytes under witness version 1: not the relayer's p2wpkh
	newWithdrawal(2)
	v1 := append([]byte{txscript.OP_1, txscript.OP_DATA_20}, keyHash...)
	err = process(2, v1)
	require.Error(t, err, "change output with witness v1 program must not be accepted as the relayer key")
	require.ErrorContains(t, err, "give change to not a latest relayer pubkey")
	require.Equal(t, types.WITHDRAWAL_STATUS_PENDING, status(2))

	// witness version 0 but a different push opcode: not p2wpkh either
	newWithdrawal(3)
	badPush := append([]byte{txscript.OP_0, txscript.OP_DATA_19}, keyHash...)
	err = process(3, badPush)
	require.Error(t, err, "change output with a malformed push must not be accepted as the relayer key")
	require.Equal(t, types.WITHDRAWAL_STATUS_PENDING, status(3))
}
