package keeper_test

// Canary input for C07 (map iteration order must not influence results): one batch of two lock requests that
// both fail for different reasons — an unknown validator (not found) and a power overflow (logic error).
// The error that is returned depends on which map entry is visited first.

import (
	"math/big"
	"testing"

	"cosmossdk.io/collections"
	"cosmossdk.io/math"
	sdk "github.com/cosmos/cosmos-sdk/types"
	"github.com/ethereum/go-ethereum/common"
	"github.com/ethereum/go-ethereum/core/types/goattypes"
	keepertest "github.com/goatnetwork/goat/testutil/keeper"
	"github.com/goatnetwork/goat/testutil/mock"
	"github.com/goatnetwork/goat/x/locking/types"
	"go.uber.org/mock/gomock"
)

func TestVerifReplay(t *testing.T) {
	ctl := gomock.NewController(t)
	k, ctx := keepertest.LockingKeeper(t, mock.NewMockAccountKeeper(ctl))
	known := common.HexToAddress("0x00000000000000000000000000000000000000aa")
	unknown := common.HexToAddress("0x00000000000000000000000000000000000000bb")
	token := common.Address{}
	denom := types.TokenDenom(token)
	if err := k.Tokens.Set(ctx, denom, types.Token{Weight: 1 << 62, Threshold: math.ZeroInt()}); err != nil {
		t.Fatal(err)
	}
	addr := sdk.ConsAddress(known.Bytes())
	if err := k.Validators.Set(ctx, addr, types.Validator{Power: 0, Reward: math.ZeroInt(), GasReward: math.ZeroInt(), Status: types.Pending}); err != nil {
		t.Fatal(err)
	}
	_ = collections.Join[uint64, sdk.ConsAddress]
	huge, _ := new(big.Int).SetString("100000000000000000000000000000000000000", 10)
	reqs := []*goattypes.LockRequest{
		{Validator: known, Token: token, Amount: huge},
		{Validator: unknown, Token: token, Amount: big.NewInt(1)},
	}
	seen := map[string]int{}
	for i := 0; i < 200; i++ {
		cctx, _ := ctx.CacheContext()
		err := k.Lock(cctx, reqs)
		if err == nil {
			t.Skip("batch accepted")
		}
		seen[err.Error()]++
	}
	if len(seen) > 1 {
		t.Fatalf("VERIF-REPLAY-VIOLATED the same batch on the same state returned %d different errors over 200 runs: %v", len(seen), seen)
	}
}
