// Canary derived from the demonstration test of the seeded change /verif/seeded/C02_b4 (fails on code with that defect, passes on the original).
package keeper_test

import (
	"testing"
	"time"

	sdktypes "github.com/cosmos/cosmos-sdk/types"
	"github.com/ethereum/go-ethereum/common"
	goatcrypto "github.com/goatnetwork/goat/pkg/crypto"
	keepertest "github.com/goatnetwork/goat/testutil/keeper"
	"github.com/goatnetwork/goat/testutil/mock"
	"github.com/goatnetwork/goat/x/relayer/types"
	"github.com/stretchr/testify/require"
	"go.uber.org/mock/gomock"
)

type seedDemoVoteMsg struct {
	proposer string
	vote     *types.Votes
	payload  []byte
}

func (m *seedDemoVoteMsg) GetProposer() string   { return m.proposer }
func (m *seedDemoVoteMsg) GetVote() *types.Votes { return m.vote }
func (m *seedDemoVoteMsg) MethodName() string    { return "Bitcoin/NewPubkey" }
func (m *seedDemoVoteMsg) VoteSigDoc() []byte    { return m.payload }

// C02: a vote signed for another epoch can never be accepted.
//
// Two relayers P and Q take the proposer role in turns. P collects a complete
// vote in epoch 0 but does not submit it. Nothing is finalized during the next
// epoch (Q is the proposer), so the sequence does not move, and the election
// after that makes P the proposer again. The vote that was signed for epoch 0
// must not be usable in epoch 2.
func TestVerifReplay(t *testing.T) {
	ctl := gomock.NewController(t)
	k, ctx, _ := keepertest.RelayerKeeper(t, mock.NewMockAccountKeeper(ctl))

	const (
		addrP = "goat1d3mw054l0cy0593cnhx46zv09lccl8w2crw529"
		addrQ = "goat1raazne03hxwxag4udd8vjznk2n42xdvc4tfsnw"
	)
	secrets := [][]byte{
		common.Hex2Bytes("37d02e811d7147a86b77c95dcb0ce8f249da5c31f28dbfd0e0a55f37341d0249"), // P
		common.Hex2Bytes("27845014abb73960d2ed55c93feee780d8f4aea7bcb140f0e35bb57621b118e9"), // Q
	}
	voters := []types.Voter{
		{
			Address: common.Hex2Bytes("6c76e7d2bf7e08fa16389dcd5d098f2ff18f9dca"),
			VoteKey: common.Hex2Bytes("931e41003cdbb46fa624f0636bceb743ff4f16240e3c175eeafa75fb29d2f3e06e9cd0515840af9d5899621ccb7e16a21251431e69361702478f584b4314e2178443b802302f22be9e38d9bb15abc692fa560ab3e2724f03d27c611db1227552"),
			Status:  types.VOTER_STATUS_ACTIVATED, Height: 100,
		},
		{
			Address: common.Hex2Bytes("1f7a29e5f1b99c6ea2bc6b4ec90a7654eaa33598"),
			VoteKey: common.Hex2Bytes("a05ad80960006177d2d5f424bcb8b68c0089cbb50de7482d1658ce3df4f01261db7df3c67cb4b459b441479e0b6aae8101a776335615749a61646f32fdd5812031f0318a63c7a13963b210dd64a68bc9abd530746190160aa781295e850ec1f5"),
			Status:  types.VOTER_STATUS_ACTIVATED, Height: 100,
		},
	}
	require.NoError(t, k.Voters.Set(ctx, addrP, voters[0]))
	require.NoError(t, k.Voters.Set(ctx, addrQ, voters[1]))

	period := time.Minute
	require.NoError(t, k.Params.Set(ctx, types.Params{ElectingPeriod: period}))

	start := ctx.BlockTime()
	require.NoError(t, k.Relayer.Set(ctx, types.Relayer{
		Epoch:            0,
		Proposer:         addrP,
		Voters:           []string{addrQ},
		LastElected:      start,
		ProposerAccepted: true,
	}))

	// epoch 0: P and Q sign a proposal for (sequence 0, epoch 0)
	payload := []byte("seed demo payload")
	sigdoc := types.VoteSignDoc("Bitcoin/NewPubkey", ctx.ChainID(), addrP, 0, 0, payload)
	var sigs [][]byte
	for _, raw := range secrets {
		sk := new(goatcrypto.PrivateKey).Deserialize(raw)
		require.NotNil(t, sk)
		sigs = append(sigs, goatcrypto.Sign(sk, sigdoc))
	}
	aggsig, err := goatcrypto.AggregateSignatures(sigs)
	require.NoError(t, err)

	msg := &seedDemoVoteMsg{
		proposer: addrP,
		payload:  payload,
		vote: &types.Votes{
			Sequence:  0,
			Epoch:     0,
			Voters:    common.Hex2Bytes("0100000000000000"),
			Signature: aggsig,
		},
	}

	// sanity: the vote is a good one in the epoch it was signed for
	// (checked on a branch of the state that is thrown away)
	{
		branch, _ := ctx.CacheContext()
		seq, err := k.VerifyProposal(branch, msg)
		require.NoError(t, err)
		require.EqualValues(t, 0, seq)
	}

	// election 1: Q takes over, it does not finalize anything
	ctx = ctx.WithBlockTime(start.Add(period))
	require.NoError(t, k.EndBlocker(ctx))
	relayer, err := k.Relayer.Get(ctx)
	require.NoError(t, err)
	require.EqualValues(t, 1, relayer.Epoch)
	require.Equal(t, addrQ, relayer.Proposer)

	// P's vote is useless while Q is the proposer
	_, err = k.VerifyProposal(ctx, msg)
	require.Error(t, err)

	// election 2: P is the proposer again
	ctx = ctx.WithBlockTime(start.Add(2 * period))
	require.NoError(t, k.EndBlocker(ctx))
	relayer, err = k.Relayer.Get(ctx)
	require.NoError(t, err)
	require.EqualValues(t, 2, relayer.Epoch)
	require.Equal(t, addrP, relayer.Proposer)
	require.Equal(t, []string{addrQ}, relayer.Voters)
	require.False(t, relayer.ProposerAccepted)

	seqBefore, err := k.Sequence.Peek(ctx)
	require.NoError(t, err)
	require.EqualValues(t, 0, seqBefore)

	// the vote was signed for epoch 0, the chain is in epoch 2
	_, err = k.VerifyProposal(sdktypes.WrapSDKContext(ctx), msg)
	require.Error(t, err, "a vote signed for epoch 0 was accepted in epoch 2")

	// and a rejected proposal leaves the proposer-accepted flag untouched
	relayer, err = k.Relayer.Get(ctx)
	require.NoError(t, err)
	require.False(t, relayer.ProposerAccepted)
}
