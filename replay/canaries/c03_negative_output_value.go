package keeper_test

// Canary input for C03 (credited amount + tax == output value, value >= minimum): a deposit whose designated
// output carries the value bytes ff..ff (int64 -1). The transaction is the only one of its block (so its id is
// the Merkle root), the block hash is voted and 100 blocks lie above it.

import (
	"bytes"
	"testing"

	"github.com/btcsuite/btcd/chaincfg"
	"github.com/btcsuite/btcd/txscript"
	"github.com/btcsuite/btcd/wire"
	"github.com/ethereum/go-ethereum/common"
	goatcrypto "github.com/goatnetwork/goat/pkg/crypto"
	keepertest "github.com/goatnetwork/goat/testutil/keeper"
	"github.com/goatnetwork/goat/testutil/mock"
	"github.com/goatnetwork/goat/x/bitcoin/types"
	relayer "github.com/goatnetwork/goat/x/relayer/types"
	"go.uber.org/mock/gomock"
)

func TestVerifReplay(t *testing.T) {
	ctl := gomock.NewController(t)
	rk := mock.NewMockRelayerKeeper(ctl)
	k, ctx, _ := keepertest.BitcoinKeeper(t, rk)
	key := relayer.PublicKey{Key: &relayer.PublicKey_Secp256K1{Secp256K1: common.Hex2Bytes("0383560def84048edefe637d0119a4428dd12a42765a118b2bf77984057633c50e")}}
	rk.EXPECT().HasPubkey(gomock.Any(), gomock.Any()).Return(true, nil).AnyTimes()
	evm := common.HexToAddress("0xbC122aEc3EdD80433dfE3c708b2E549B5A7Ab96E")
	params := types.DefaultParams()
	if err := k.Params.Set(ctx, params); err != nil {
		t.Fatal(err)
	}
	addr, err := types.DepositAddressV0(&key, evm.Bytes(), &chaincfg.RegressionNetParams)
	if err != nil {
		t.Fatal(err)
	}
	script, err := txscript.PayToAddrScript(addr)
	if err != nil {
		t.Fatal(err)
	}
	tx := wire.NewMsgTx(2)
	tx.AddTxIn(wire.NewTxIn(&wire.OutPoint{Index: 0}, nil, nil))
	tx.AddTxOut(&wire.TxOut{Value: -1, PkScript: script})
	var raw bytes.Buffer
	if err := tx.SerializeNoWitness(&raw); err != nil {
		t.Fatal(err)
	}
	for raw.Len() < 94 { // Deposit.Validate wants more than 93 bytes; pad the signature script instead
		tx.TxIn[0].SignatureScript = append(tx.TxIn[0].SignatureScript, 0x51)
		raw.Reset()
		tx.SerializeNoWitness(&raw)
	}
	txid := goatcrypto.DoubleSHA256Sum(raw.Bytes())
	header := make([]byte, 80)
	copy(header[36:68], txid)
	const height = 5
	if err := k.BlockHashes.Set(ctx, height, goatcrypto.DoubleSHA256Sum(header)); err != nil {
		t.Fatal(err)
	}
	if err := k.BlockTip.Set(ctx, height+100); err != nil {
		t.Fatal(err)
	}
	res, err := k.VerifyDeposit(ctx, map[uint64][]byte{height: header}, &types.Deposit{
		Version: 0, BlockNumber: height, TxIndex: 0, NoWitnessTx: raw.Bytes(), OutputIndex: 0,
		EvmAddress: evm.Bytes(), RelayerPubkey: &key,
	})
	if err != nil {
		t.Skipf("rejected: %v", err)
	}
	t.Fatalf("VERIF-REPLAY-VIOLATED output value -1 sat accepted; credited amount=%d tax=%d", res.Amount, res.Tax)
}
