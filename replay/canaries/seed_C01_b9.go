// Canary derived from the demonstration test of the seeded change /verif/seeded/C01_b9 (fails on code with that defect, passes on the original).
package keeper_test

import (
	"bytes"
	"context"
	"testing"

	"github.com/btcsuite/btcd/chaincfg/chainhash"
	"github.com/btcsuite/btcd/wire"
	sdk "github.com/cosmos/cosmos-sdk/types"
	goatcrypto "github.com/goatnetwork/goat/pkg/crypto"
	keepertest "github.com/goatnetwork/goat/testutil/keeper"
	"github.com/goatnetwork/goat/x/bitcoin/keeper"
	"github.com/goatnetwork/goat/x/bitcoin/types"
	relayerkeeper "github.com/goatnetwork/goat/x/relayer/keeper"
	relayertypes "github.com/goatnetwork/goat/x/relayer/types"
	"github.com/stretchr/testify/require"
)

// seedRelayerAdapter plugs the REAL relayer keeper (which lives in its own
// in-memory store / context in the unit test helpers) into the bitcoin keeper.
type seedRelayerAdapter struct {
	k   relayerkeeper.Keeper
	ctx sdk.Context
}

func (a seedRelayerAdapter) VerifyProposal(_ context.Context, req relayertypes.IVoteMsg, verifyFn ...func(sigdoc []byte) error) (uint64, error) {
	return a.k.VerifyProposal(a.ctx, req, verifyFn...)
}

func (a seedRelayerAdapter) VerifyNonProposal(_ context.Context, req relayertypes.INonVoteMsg) (relayertypes.IRelayer, error) {
	return a.k.VerifyNonProposal(a.ctx, req)
}

func (a seedRelayerAdapter) UpdateRandao(_ context.Context, req relayertypes.IVoteMsg) error {
	return a.k.UpdateRandao(a.ctx, req)
}

func (a seedRelayerAdapter) HasPubkey(_ context.Context, raw []byte) (bool, error) {
	return a.k.HasPubkey(a.ctx, raw)
}

func (a seedRelayerAdapter) AddNewKey(_ context.Context, raw []byte) error {
	return a.k.AddNewKey(a.ctx, raw)
}

func (a seedRelayerAdapter) SetProposalSeq(_ context.Context, seq uint64) error {
	return a.k.SetProposalSeq(a.ctx, seq)
}

// TestSeedDemo: a ProcessWithdrawal proposal takes effect only if the quorum
// signed exactly that payload. The relayer group votes for the batch
// Id=[1,2] (withdrawal 1 <-> txout 0, withdrawal 2 <-> txout 1). The proposer
// then submits the very same vote with Id=[2,1], i.e. a different pairing of
// withdrawals and outputs that nobody voted for. It must be rejected and must
// not change any state.
func TestVerifReplay(t *testing.T) {
	rk, rctx, _ := keepertest.RelayerKeeper(t, nil)
	bk, bctx, _ := keepertest.BitcoinKeeper(t, seedRelayerAdapter{k: rk, ctx: rctx})

	// ---- relayer group: one proposer and two voters, everybody signs
	addrs := []string{
		"goat1d3mw054l0cy0593cnhx46zv09lccl8w2crw529",
		"goat1raazne03hxwxag4udd8vjznk2n42xdvc4tfsnw",
		"goat17w2ehyfh7cdxn3kr87g6fehm0qx8wytyevyllx",
	}
	sks := make([]*goatcrypto.PrivateKey, len(addrs))
	for i, addr := range addrs {
		sks[i] = goatcrypto.GenPrivKey()
		pk := new(goatcrypto.PublicKey).From(sks[i]).Compress()
		require.NoError(t, rk.Voters.Set(rctx, addr, relayertypes.Voter{
			Address: []byte{byte(i + 1)}, VoteKey: pk, Status: relayertypes.VOTER_STATUS_ACTIVATED,
		}))
	}
	const epoch, sequence = 7, 42
	rel := relayertypes.Relayer{Proposer: addrs[0], Voters: addrs[1:], Epoch: epoch, ProposerAccepted: true}
	require.NoError(t, rk.Relayer.Set(rctx, rel))
	require.NoError(t, rk.Sequence.Set(rctx, sequence))

	// ---- two pending withdrawals paying to the same address
	const address = "bcrt1qy728d54p6ftlpnwvfpjpkdne6sg3saq4qzezpx"
	script, err := types.DecodeBtcAddress(address, types.BitcoinNetworks["regtest"])
	require.NoError(t, err)
	for _, id := range []uint64{1, 2} {
		require.NoError(t, bk.Withdrawals.Set(bctx, id, types.Withdrawal{
			Address: address, RequestAmount: 1000, MaxTxPrice: 50, Status: types.WITHDRAWAL_STATUS_PENDING,
		}))
	}

	tx := wire.NewMsgTx(2)
	tx.AddTxIn(wire.NewTxIn(wire.NewOutPoint(&chainhash.Hash{1}, 0), nil, nil))
	tx.AddTxOut(wire.NewTxOut(900, script)) // voted: for withdrawal 1
	tx.AddTxOut(wire.NewTxOut(950, script)) // voted: for withdrawal 2
	var raw bytes.Buffer
	require.NoError(t, tx.SerializeNoWitness(&raw))

	// ---- what the group voted for
	voted := &types.MsgProcessWithdrawal{
		Proposer: addrs[0], Id: []uint64{1, 2}, NoWitnessTx: raw.Bytes(), TxFee: 200,
	}
	sigdoc := relayertypes.VoteSignDoc(voted.MethodName(), rctx.ChainID(), addrs[0], sequence, epoch, voted.VoteSigDoc())
	sigs := make([][]byte, len(sks))
	for i, sk := range sks {
		sigs[i] = goatcrypto.Sign(sk, sigdoc)
	}
	aggsig, err := goatcrypto.AggregateSignatures(sigs)
	require.NoError(t, err)
	vote := &relayertypes.Votes{
		Sequence: sequence, Epoch: epoch, Signature: aggsig,
		Voters: []byte{0x03, 0, 0, 0, 0, 0, 0, 0}, // both voters
	}
	voted.Vote = vote

	// ---- what the proposer submits instead: same vote, other payload
	tampered := &types.MsgProcessWithdrawal{
		Proposer: addrs[0], Id: []uint64{2, 1}, NoWitnessTx: raw.Bytes(), TxFee: 200, Vote: vote,
	}

	msgServer := keeper.NewMsgServerImpl(bk)

	_, err = msgServer.ProcessWithdrawal(bctx, tampered)
	require.Error(t, err, "a payload the quorum did not sign must not be accepted")
	for _, id := range []uint64{1, 2} {
		wd, err := bk.Withdrawals.Get(bctx, id)
		require.NoError(t, err)
		require.Equal(t, types.WITHDRAWAL_STATUS_PENDING, wd.Status, "withdrawal %d changed without a quorum", id)
		require.Nil(t, wd.Receipt, "withdrawal %d got a receipt without a quorum", id)
	}
	seq, err := rk.Sequence.Peek(rctx)
	require.NoError(t, err)
	require.EqualValues(t, sequence, seq, "sequence moved without a quorum")

	// sanity: the payload that was really voted for is accepted
	_, err = msgServer.ProcessWithdrawal(bctx, voted)
	require.NoError(t, err)
	wd1, err := bk.Withdrawals.Get(bctx, 1)
	require.NoError(t, err)
	require.EqualValues(t, 900, wd1.Receipt.Amount)
	wd2, err := bk.Withdrawals.Get(bctx, 2)
	require.NoError(t, err)
	require.EqualValues(t, 950, wd2.Receipt.Amount)
}
