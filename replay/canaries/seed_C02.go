// Canary derived from the demonstration test of the seeded change /verif/seeded/C02 (fails on code with that defect, passes on the original).
package keeper_test

import (
	"bytes"
	"testing"
	"time"

	"cosmossdk.io/log"
	"cosmossdk.io/store"
	"cosmossdk.io/store/metrics"
	storetypes "cosmossdk.io/store/types"
	cmtproto "github.com/cometbft/cometbft/proto/tendermint/types"
	dbm "github.com/cosmos/cosmos-db"
	"github.com/cosmos/cosmos-sdk/codec"
	addresscodec "github.com/cosmos/cosmos-sdk/codec/address"
	codectypes "github.com/cosmos/cosmos-sdk/codec/types"
	"github.com/cosmos/cosmos-sdk/runtime"
	sdk "github.com/cosmos/cosmos-sdk/types"
	_ "github.com/goatnetwork/goat/app"
	goatcrypto "github.com/goatnetwork/goat/pkg/crypto"
	"github.com/goatnetwork/goat/testutil/mock"
	"github.com/goatnetwork/goat/x/bitcoin/keeper"
	"github.com/goatnetwork/goat/x/bitcoin/types"
	relayerkeeper "github.com/goatnetwork/goat/x/relayer/keeper"
	relayertypes "github.com/goatnetwork/goat/x/relayer/types"
	"github.com/stretchr/testify/require"
	"go.uber.org/mock/gomock"
)

// TestSeedDemo wires the real relayer keeper under the bitcoin message server
// (both stores in one multistore) and checks C02 for a voted proposal that
// carries an empty block hash batch: once the vote has been accepted, the
// proposal sequence must have advanced by exactly one, the randomness
// accumulator must have been fed with the vote, and the very same vote must
// never be accepted again.
func TestVerifReplay(t *testing.T) {
	const (
		chainID     = "goat-seed-demo"
		startSeq    = uint64(7)
		epoch       = uint64(3)
		parentBlock = uint64(100)
	)

	// one multistore hosting both modules
	btcKey := storetypes.NewKVStoreKey(types.StoreKey)
	relayerKey := storetypes.NewKVStoreKey(relayertypes.StoreKey)
	db := dbm.NewMemDB()
	stateStore := store.NewCommitMultiStore(db, log.NewNopLogger(), metrics.NewNoOpMetrics())
	stateStore.MountStoreWithDB(btcKey, storetypes.StoreTypeIAVL, db)
	stateStore.MountStoreWithDB(relayerKey, storetypes.StoreTypeIAVL, db)
	require.NoError(t, stateStore.LoadLatestVersion())

	cdc := codec.NewProtoCodec(codectypes.NewInterfaceRegistry())
	addressCodec := addresscodec.NewBech32Codec(sdk.GetConfig().GetBech32AccountAddrPrefix())

	ctl := gomock.NewController(t)
	rk := relayerkeeper.NewKeeper(cdc, addressCodec, runtime.NewKVStoreService(relayerKey),
		mock.NewMockAccountKeeper(ctl), log.NewNopLogger())
	bk := keeper.NewKeeper(cdc, addressCodec, runtime.NewKVStoreService(btcKey), log.NewNopLogger(), rk)

	ctx := sdk.NewContext(stateStore,
		cmtproto.Header{ChainID: chainID, Time: time.Now().UTC()}, false, log.NewNopLogger())

	// relayer group: a proposer and one more voter, both have to sign
	type member struct {
		addr string
		sk   *goatcrypto.PrivateKey
	}
	var members []member
	for i := byte(1); i <= 2; i++ {
		raw := bytes.Repeat([]byte{i}, 20)
		addr, err := addressCodec.BytesToString(raw)
		require.NoError(t, err)
		sk := goatcrypto.GenPrivKey()
		pk := new(goatcrypto.PublicKey).From(sk).Compress()
		require.NoError(t, rk.Voters.Set(ctx, addr, relayertypes.Voter{
			Address: raw, VoteKey: pk, Status: relayertypes.VOTER_STATUS_ACTIVATED, Height: 1,
		}))
		members = append(members, member{addr: addr, sk: sk})
	}

	require.NoError(t, rk.Params.Set(ctx, relayertypes.DefaultParams()))
	require.NoError(t, rk.Queue.Set(ctx, relayertypes.VoterQueue{}))
	require.NoError(t, rk.Randao.Set(ctx, make([]byte, 32)))
	require.NoError(t, rk.Sequence.Set(ctx, startSeq))
	require.NoError(t, rk.Relayer.Set(ctx, relayertypes.Relayer{
		Epoch:            epoch,
		Proposer:         members[0].addr,
		Voters:           []string{members[1].addr},
		LastElected:      ctx.BlockTime(),
		ProposerAccepted: true,
	}))

	require.NoError(t, bk.Params.Set(ctx, types.DefaultParams()))
	require.NoError(t, bk.BlockTip.Set(ctx, parentBlock))

	sign := func(req *types.MsgNewBlockHashes, seq uint64) {
		sigdoc := relayertypes.VoteSignDoc(req.MethodName(), chainID, members[0].addr, seq, epoch, req.VoteSigDoc())
		var sigs [][]byte
		for _, m := range members {
			sigs = append(sigs, goatcrypto.Sign(m.sk, sigdoc))
		}
		agg, err := goatcrypto.AggregateSignatures(sigs)
		require.NoError(t, err)
		req.Vote = &relayertypes.Votes{
			Sequence:  seq,
			Epoch:     epoch,
			Voters:    []byte{1, 0, 0, 0, 0, 0, 0, 0}, // voter #0
			Signature: agg,
		}
	}

	msgServer := keeper.NewMsgServerImpl(bk)

	// the voted proposal with an empty batch (allowed by MsgNewBlockHashes.Validate)
	req := &types.MsgNewBlockHashes{
		Proposer:         members[0].addr,
		StartBlockNumber: parentBlock + 1,
		BlockHash:        nil,
	}
	sign(req, startSeq)
	require.NoError(t, req.Validate())

	randaoBefore, err := rk.Randao.Get(ctx)
	require.NoError(t, err)

	_, err = msgServer.NewBlockHashes(ctx, req)
	require.NoError(t, err, "a properly voted proposal is accepted")

	seq, err := rk.Sequence.Peek(ctx)
	require.NoError(t, err)
	if seq != startSeq+1 {
		t.Errorf("C02: accepted proposal must consume exactly one sequence number: got %d, want %d", seq, startSeq+1)
	}

	randaoAfter, err := rk.Randao.Get(ctx)
	require.NoError(t, err)
	if !bytes.Equal(randaoAfter, goatcrypto.SHA256Sum(randaoBefore, req.Vote.Signature)) {
		t.Errorf("C02: accepted proposal must feed its vote into the randomness accumulator")
	}

	// replay the very same message with the very same vote
	for i := 0; i < 3; i++ {
		if _, err := msgServer.NewBlockHashes(ctx, req); err == nil {
			t.Errorf("C02: replay #%d of an already accepted vote was accepted again", i+1)
		}
	}

	// the tip must not have been touched by the empty batch
	tip, err := bk.BlockTip.Peek(ctx)
	require.NoError(t, err)
	require.EqualValues(t, parentBlock, tip)

	// sanity: a following ordinary proposal is accepted at the sequence the chain is at
	seq, err = rk.Sequence.Peek(ctx)
	require.NoError(t, err)
	next := &types.MsgNewBlockHashes{
		Proposer:         members[0].addr,
		StartBlockNumber: parentBlock + 1,
		BlockHash:        [][]byte{bytes.Repeat([]byte{0xab}, 32)},
	}
	sign(next, seq)
	_, err = msgServer.NewBlockHashes(ctx, next)
	require.NoError(t, err)
	after, err := rk.Sequence.Peek(ctx)
	require.NoError(t, err)
	require.EqualValues(t, seq+1, after)
}
