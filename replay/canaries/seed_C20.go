// Canary derived from the demonstration test of the seeded change /verif/seeded/C20 (fails on code with that defect, passes on the original).
package keeper_test

import (
	"testing"

	"github.com/btcsuite/btcd/chaincfg/chainhash"
	"github.com/ethereum/go-ethereum/common"
	"github.com/ethereum/go-ethereum/core/types/goattypes"
	keepertest "github.com/goatnetwork/goat/testutil/keeper"
	"github.com/goatnetwork/goat/testutil/mock"
	"github.com/goatnetwork/goat/x/bitcoin/types"
	relayer "github.com/goatnetwork/goat/x/relayer/types"
	"github.com/stretchr/testify/assert"
	"github.com/stretchr/testify/require"
	"go.uber.org/mock/gomock"
)

// C20: bridge parameters set from the execution layer stay within safe bounds.
// A tax request with the boundary rate (exactly 100 % = MaxTaxBP basis points)
// and no cap must be ignored, so that a later deposit whose value is a
// multiple of MaxTaxBP is never taxed down to a zero credited amount.
func TestVerifReplay(t *testing.T) {
	ctl := gomock.NewController(t)
	defer ctl.Finish()
	relayerKeeper := mock.NewMockRelayerKeeper(ctl)
	k, ctx, _ := keepertest.BitcoinKeeper(t, relayerKeeper)

	testKey := relayer.PublicKey{Key: &relayer.PublicKey_Secp256K1{
		Secp256K1: common.Hex2Bytes("0383560def84048edefe637d0119a4428dd12a42765a118b2bf77984057633c50e"),
	}}

	require.NoError(t, k.Params.Set(ctx, types.DefaultParams()))

	// an ordinary update followed by boundary / out-of-range ones
	for _, reqs := range []goattypes.BridgeRequests{
		{DepositTax: []*goattypes.DepositTaxRequest{{Rate: 2, Max: 1e5}}},
		{DepositTax: []*goattypes.DepositTaxRequest{{Rate: types.MaxTaxBP + 1, Max: 1e5}}},
		{DepositTax: []*goattypes.DepositTaxRequest{{Rate: ^uint64(0), Max: 1e5}}},
		{DepositTax: []*goattypes.DepositTaxRequest{{Rate: types.MaxTaxBP, Max: 0}}},
	} {
		require.NoError(t, k.ProcessBridgeRequest(ctx, reqs))
		param, err := k.Params.Get(ctx)
		require.NoError(t, err)
		assert.Less(t, param.DepositTaxRate, uint64(types.MaxTaxBP), "deposit tax rate must stay below 100 percent")
	}

	// a deposit of 1 BTC (a multiple of MaxTaxBP) under the resulting params
	evmAddress := common.HexToAddress("0xbC122aEc3EdD80433dfE3c708b2E549B5A7Ab96E")
	relayerKeeper.EXPECT().HasPubkey(ctx, relayer.EncodePublicKey(&testKey)).Return(true, nil).AnyTimes()

	blockHash, err := chainhash.NewHashFromStr("38fb77a25662f9eda5abef8a407ba45e8c3374b5a0724cfa9762f1f9cbf627e2")
	require.NoError(t, err)
	const height = 102
	require.NoError(t, k.BlockHashes.Set(ctx, height, blockHash[:]))
	require.NoError(t, k.BlockTip.Set(ctx, height))

	header := common.Hex2Bytes("00000020451119ce15cd42ceb7a00c2ef9843aa613a69f19f7b4fc483f0f28b099c54d1bc8df397f2235b299f7ca89e10f789e598f53dc89789b8a047bc78238ef4bd4daf9f8e466ffff7f2000000000")
	rawTx := common.Hex2Bytes("0200000001e15e44fc827b0e1a3178b6e07f67e8339faae54e4241e5fa5c1ed61786a84bda0000000000fdffffff020dc74c0001000000225120098ad136e9ed8106af7c1b6b4934011f320b30f6e18871917e0d6fb1bdcb5d1400e1f50500000000220020f7608234b4bc67678cc5498dfe7db5dfda221d3ff669f1d9ee89fbcf14d104f366000000")
	proof := common.Hex2Bytes("4930ac654c3c2e487fcc2106a51ecaaf4188093686dfffcfe880798044aadc02")
	const value = uint64(1e8)

	res, err := k.VerifyDeposit(ctx, map[uint64][]byte{height: header}, &types.Deposit{
		Version:           0,
		BlockNumber:       height,
		TxIndex:           1,
		NoWitnessTx:       rawTx,
		OutputIndex:       1,
		IntermediateProof: proof,
		EvmAddress:        evmAddress.Bytes(),
		RelayerPubkey:     &testKey,
	})
	require.NoError(t, err)
	require.Less(t, res.Tax, value, "tax must not reach the deposit value")
	require.NotZero(t, res.Amount, "credited amount must not be zero")
	require.Equal(t, value, res.Amount+res.Tax)
}
