// Canary derived from the demonstration test of the seeded change /verif/seeded/C07 (fails on code with that defect, passes on the original).
package keeper_test

import (
	"testing"
	"time"

	"cosmossdk.io/collections"
	"cosmossdk.io/math"
	storetypes "cosmossdk.io/store/types"
	abci "github.com/cometbft/cometbft/abci/types"
	cmtproto "github.com/cometbft/cometbft/proto/tendermint/types"
	"github.com/cosmos/cosmos-sdk/baseapp"
	sdk "github.com/cosmos/cosmos-sdk/types"
	"github.com/ethereum/go-ethereum/common"
	keepertest "github.com/goatnetwork/goat/testutil/keeper"
	"github.com/goatnetwork/goat/testutil/mock"
	"github.com/goatnetwork/goat/x/locking/types"
	"github.com/stretchr/testify/require"
	"go.uber.org/mock/gomock"
)

// seedDemoEvidenceBlock builds a fresh replica with one active validator and
// executes the evidence handling of one block on it. The block is fully
// described by its header time, its height, the consensus params and the
// misbehavior it carries. It returns the validator status after the block and
// the hash of the committed state.
func seedDemoEvidenceBlock(t *testing.T, blockTime time.Time, evidenceAge, maxAge time.Duration) (types.ValidatorStatus, []byte) {
	t.Helper()

	ctl := gomock.NewController(t)
	defer ctl.Finish()
	k, ctx := keepertest.LockingKeeper(t, mock.NewMockAccountKeeper(ctl))

	address := sdk.ConsAddress(common.Hex2Bytes("f0933654a540830e283b87bba9ff2eb16b5acd1d"))
	denom := types.TokenDenom(common.Address{})
	validator := types.Validator{
		Pubkey:    common.Hex2Bytes("03ac22905ded6095255f498cd5cb217b6ebf0d82c7df2c89bce6e9089dd51e6f50"),
		Power:     10000,
		Reward:    math.ZeroInt(),
		GasReward: math.ZeroInt(),
		Status:    types.Active,
		Locking:   sdk.NewCoins(sdk.NewCoin(denom, math.NewIntFromUint64(1e18))),
	}
	require.NoError(t, k.Validators.Set(ctx, address, validator))
	require.NoError(t, k.Locking.Set(ctx, collections.Join(denom, address), math.NewIntFromUint64(1e18)))
	require.NoError(t, k.PowerRanking.Set(ctx, collections.Join(validator.Power, address)))
	require.NoError(t, k.Tokens.Set(ctx, denom, types.Token{Weight: 1e4, Threshold: math.NewIntFromUint64(1e18)}))
	require.NoError(t, k.Params.Set(ctx, types.Params{
		SignedBlocksWindow:      3,
		MaxMissedPerWindow:      1,
		DowntimeJailDuration:    time.Hour,
		SlashFractionDoubleSign: math.LegacyNewDec(2).QuoInt64(100),
	}))

	// the evidence is older than MaxAgeNumBlocks in blocks, but younger than
	// MaxAgeDuration in (block) time: it is still valid and has to be punished
	blockCtx := ctx.
		WithConsensusParams(cmtproto.ConsensusParams{Evidence: &cmtproto.EvidenceParams{
			MaxAgeNumBlocks: 100,
			MaxAgeDuration:  maxAge,
		}}).
		WithBlockHeight(1000).
		WithBlockTime(blockTime).
		WithCometInfo(baseapp.NewBlockInfo([]abci.Misbehavior{{
			Type:      abci.MisbehaviorType_DUPLICATE_VOTE,
			Validator: abci.Validator{Address: address, Power: int64(validator.Power)},
			Time:      blockTime.Add(-evidenceAge),
			Height:    1,
		}}, nil, address, abci.CommitInfo{}))
	require.NoError(t, k.HandleEvidences(blockCtx))

	updated, err := k.Validators.Get(blockCtx, address)
	require.NoError(t, err)

	cms, ok := ctx.MultiStore().(storetypes.CommitMultiStore)
	require.True(t, ok)
	return updated.Status, cms.Commit().Hash
}

// TestSeedDemo checks C07 for the evidence handling of the locking module:
// executing the same block on the same state yields the same state hash no
// matter when (wall-clock) the block is executed.
func TestVerifReplay(t *testing.T) {
	t.Run("historical block replayed by a syncing replica", func(t *testing.T) {
		// a live replica executes the block right when it is produced
		liveTime := time.Now().UTC()
		liveStatus, liveHash := seedDemoEvidenceBlock(t, liveTime, time.Minute, time.Hour)

		// a syncing replica executes a block with the very same relative
		// timing a year after it was produced
		replayStatus, replayHash := seedDemoEvidenceBlock(t, liveTime.AddDate(-1, 0, 0), time.Minute, time.Hour)

		require.Equal(t, types.Tombstoned, liveStatus)
		require.Equal(t, liveStatus, replayStatus, "the outcome depends on the wall clock of the executing replica")
		require.Equal(t, liveHash, replayHash, "state hash depends on the wall clock of the executing replica")
	})

	t.Run("same block re-executed a few seconds later", func(t *testing.T) {
		blockTime := time.Now().UTC()
		firstStatus, firstHash := seedDemoEvidenceBlock(t, blockTime, time.Second, 3*time.Second)

		time.Sleep(3 * time.Second) // e.g. a restart between FinalizeBlock and Commit

		secondStatus, secondHash := seedDemoEvidenceBlock(t, blockTime, time.Second, 3*time.Second)
		require.Equal(t, firstStatus, secondStatus, "re-execution of the same block gives a different validator status")
		require.Equal(t, firstHash, secondHash, "re-execution of the same block gives a different state hash")
	})
}
