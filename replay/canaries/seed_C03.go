// Canary derived from the demonstration test of the seeded change /verif/seeded/C03 (fails on code with that defect, passes on the original).
package keeper_test

import (
	"bytes"
	"testing"

	"github.com/btcsuite/btcd/chaincfg"
	"github.com/btcsuite/btcd/chaincfg/chainhash"
	"github.com/btcsuite/btcd/txscript"
	"github.com/btcsuite/btcd/wire"
	"github.com/ethereum/go-ethereum/common"
	goatcrypto "github.com/goatnetwork/goat/pkg/crypto"
	keepertest "github.com/goatnetwork/goat/testutil/keeper"
	"github.com/goatnetwork/goat/testutil/mock"
	"github.com/goatnetwork/goat/x/bitcoin/types"
	relayer "github.com/goatnetwork/goat/x/relayer/types"
	"github.com/stretchr/testify/require"
	"go.uber.org/mock/gomock"
)

// TestSeedDemo: a coinbase transaction must not be credited before 100 voted
// blocks lie above it, whatever position the submitter claims for it.
//
// The block below contains only its coinbase transaction (so the merkle root
// is the coinbase txid and the inclusion proof is empty). The coinbase pays to
// a valid v0 deposit script. The tip is the block itself (0 confirmations
// above it), so the deposit has to be rejected for every claimed tx index.
func TestVerifReplay(t *testing.T) {
	ctl := gomock.NewController(t)
	defer ctl.Finish()
	relayerKeeper := mock.NewMockRelayerKeeper(ctl)
	k, ctx, _ := keepertest.BitcoinKeeper(t, relayerKeeper)

	pubkey := &relayer.PublicKey{Key: &relayer.PublicKey_Secp256K1{
		Secp256K1: common.Hex2Bytes("0383560def84048edefe637d0119a4428dd12a42765a118b2bf77984057633c50e"),
	}}
	evmAddress := common.HexToAddress("0xbC122aEc3EdD80433dfE3c708b2E549B5A7Ab96E")
	relayerKeeper.EXPECT().HasPubkey(gomock.Any(), relayer.EncodePublicKey(pubkey)).Return(true, nil).AnyTimes()

	// coinbase transaction paying the block reward to the deposit address
	addr, err := types.DepositAddressV0(pubkey, evmAddress.Bytes(), &chaincfg.RegressionNetParams)
	require.NoError(t, err)
	pkScript, err := txscript.PayToAddrScript(addr)
	require.NoError(t, err)

	const height = 500
	coinbase := wire.NewMsgTx(2)
	coinbase.AddTxIn(&wire.TxIn{
		PreviousOutPoint: *wire.NewOutPoint(&chainhash.Hash{}, wire.MaxPrevOutIndex),
		SignatureScript:  []byte{0x02, 0xf4, 0x01, 0x00}, // BIP34 height push (500)
		Sequence:         wire.MaxTxInSequenceNum,
	})
	coinbase.AddTxOut(wire.NewTxOut(50e8, pkScript))

	var raw bytes.Buffer
	require.NoError(t, coinbase.SerializeNoWitness(&raw))
	txid := goatcrypto.DoubleSHA256Sum(raw.Bytes())

	// the block header: single transaction => merkle root == coinbase txid
	header := make([]byte, types.RawBtcHeaderSize)
	header[3] = 0x20
	copy(header[36:68], txid)
	blockHash := goatcrypto.DoubleSHA256Sum(header)

	// the block is voted and it is the tip: no block lies above it
	require.NoError(t, k.BlockHashes.Set(ctx, height, blockHash))
	require.NoError(t, k.BlockTip.Set(ctx, height))

	for _, claimed := range []uint32{0, 1, 2, 7, 1 << 31} {
		dep := &types.Deposit{
			Version:           0,
			BlockNumber:       height,
			TxIndex:           claimed,
			NoWitnessTx:       raw.Bytes(),
			OutputIndex:       0,
			IntermediateProof: nil,
			EvmAddress:        evmAddress.Bytes(),
			RelayerPubkey:     pubkey,
		}
		require.NoError(t, dep.Validate())
		res, err := k.VerifyDeposit(ctx, map[uint64][]byte{height: header}, dep)
		require.Errorf(t, err, "immature coinbase credited with claimed tx index %d: %+v", claimed, res)
		require.Nil(t, res)
	}

	// sanity: once 100 blocks lie above it, the coinbase (position 0) is accepted
	require.NoError(t, k.BlockTip.Set(ctx, height+100))
	res, err := k.VerifyDeposit(ctx, map[uint64][]byte{height: header}, &types.Deposit{
		BlockNumber:   height,
		TxIndex:       0,
		NoWitnessTx:   raw.Bytes(),
		EvmAddress:    evmAddress.Bytes(),
		RelayerPubkey: pubkey,
	})
	require.NoError(t, err)
	require.Equal(t, uint64(50e8), res.Amount+res.Tax)
}
