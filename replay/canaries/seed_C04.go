// Canary derived from the demonstration test of the seeded change /verif/seeded/C04 (fails on code with that defect, passes on the original).
package types

import (
	"bytes"
	"crypto/sha256"
	"encoding/binary"
	"testing"
)

func seedDemoDHash(b []byte) []byte {
	h1 := sha256.Sum256(b)
	h2 := sha256.Sum256(h1[:])
	return h2[:]
}

// seedDemoTree builds a bitcoin style merkle tree (odd levels duplicate the
// last node) and returns the root and the genuine path of every leaf.
func seedDemoTree(leaves [][]byte) (root []byte, paths [][]byte) {
	paths = make([][]byte, len(leaves))
	pos := make([]int, len(leaves))
	for i := range pos {
		pos[i] = i
	}
	level := leaves
	for len(level) > 1 {
		if len(level)%2 == 1 {
			level = append(level[:len(level):len(level)], level[len(level)-1])
		}
		for i := range leaves {
			paths[i] = append(paths[i], level[pos[i]^1]...)
			pos[i] >>= 1
		}
		next := make([][]byte, 0, len(level)/2)
		for i := 0; i < len(level); i += 2 {
			next = append(next, seedDemoDHash(append(append([]byte{}, level[i]...), level[i+1]...)))
		}
		level = next
	}
	return level[0], paths
}

// seedDemoModel is the specification: hash the leaf up the path choosing the
// side from the bits of the position, and the position must be < 2^len(path).
func seedDemoModel(leaf, root, path []byte, index uint32) bool {
	if len(leaf) != 32 || len(root) != 32 || len(path)%32 != 0 {
		return false
	}
	n := len(path) / 32
	if n < 32 && uint64(index) >= uint64(1)<<uint(n) {
		return false
	}
	cur := leaf
	for i := 0; i < n; i++ {
		sib := path[i*32 : (i+1)*32]
		if (index>>uint(i))&1 == 0 {
			cur = seedDemoDHash(append(append([]byte{}, cur...), sib...))
		} else {
			cur = seedDemoDHash(append(append([]byte{}, sib...), cur...))
		}
	}
	return bytes.Equal(cur, root)
}

func TestVerifReplay(t *testing.T) {
	for size := 1; size <= 9; size++ {
		leaves := make([][]byte, size)
		for i := range leaves {
			var b [8]byte
			binary.LittleEndian.PutUint32(b[:4], uint32(size))
			binary.LittleEndian.PutUint32(b[4:], uint32(i))
			leaves[i] = seedDemoDHash(b[:])
		}
		root, paths := seedDemoTree(leaves)
		depth := len(paths[0]) / 32

		for pos := 0; pos < size; pos++ {
			// the genuine proof is accepted
			if !VerifyMerkelProof(leaves[pos], root, paths[pos], uint32(pos)) {
				t.Fatalf("size %d: genuine proof of leaf %d rejected", size, pos)
			}

			// every claimed position agrees with the specification
			limit := uint32(4) << uint(depth)
			claims := []uint32{1 << 31, 1<<31 | uint32(pos), ^uint32(0)}
			for c := uint32(0); c <= limit; c++ {
				claims = append(claims, c)
			}
			for _, c := range claims {
				got := VerifyMerkelProof(leaves[pos], root, paths[pos], c)
				want := seedDemoModel(leaves[pos], root, paths[pos], c)
				if got != want {
					t.Errorf("size %d depth %d: leaf %d claimed at position %d: got %v want %v",
						size, depth, pos, c, got, want)
				}
			}
		}

		// the first transaction of a block cannot be presented under any
		// other position, so that it cannot escape the coinbase handling
		for c := uint32(1); c <= uint32(4)<<uint(depth); c++ {
			if VerifyMerkelProof(leaves[0], root, paths[0], c) {
				t.Errorf("size %d depth %d: first transaction accepted at position %d", size, depth, c)
			}
		}
	}
}
