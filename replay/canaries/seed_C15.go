// Canary derived from the demonstration test of the seeded change /verif/seeded/C15 (fails on code with that defect, passes on the original).
package keeper_test

import (
	"math/big"
	"testing"
	"time"

	"cosmossdk.io/math"
	sdk "github.com/cosmos/cosmos-sdk/types"
	"github.com/ethereum/go-ethereum/common"
	"github.com/ethereum/go-ethereum/core/types/goattypes"
	keepertest "github.com/goatnetwork/goat/testutil/keeper"
	"github.com/goatnetwork/goat/testutil/mock"
	"github.com/goatnetwork/goat/x/locking/types"
	"github.com/stretchr/testify/require"
	"go.uber.org/mock/gomock"
)

// A tombstoned validator (double sign, slashed 5%) still holds far more than
// the token threshold. A partial unlock that keeps the remainder above the
// threshold must still wait for the exiting duration, not the unlock duration.
func TestVerifReplay(t *testing.T) {
	ctl := gomock.NewController(t)
	defer ctl.Finish()

	k, ctx := keepertest.LockingKeeper(t, mock.NewMockAccountKeeper(ctl))

	now := time.Date(2025, 1, 1, 0, 0, 0, 0, time.UTC)
	ctx = ctx.WithBlockTime(now)

	param, err := k.Params.Get(ctx)
	require.NoError(t, err)
	require.Greater(t, param.ExitingDuration, param.UnlockDuration)

	denom := types.TokenDenom(common.Address{})
	require.NoError(t, k.Tokens.Set(ctx, denom, types.Token{Weight: 1e4, Threshold: math.NewIntFromUint64(1e18)}))
	require.NoError(t, k.Threshold.Set(ctx, types.Threshold{
		List: sdk.NewCoins(sdk.NewCoin(denom, math.NewIntFromUint64(1e18))),
	}))
	require.NoError(t, k.EthTxQueue.Set(ctx, types.EthTxQueue{}))

	addr := sdk.ConsAddress(common.Hex2Bytes("359bc904aa5800469eb9b7a18f8456f47f62415d"))
	recipient := common.HexToAddress("0x6893602d68a4f6ce6949ab51b9651e7cda0bf52d")

	// 10 ether locked, 5% slashed by the double sign evidence => 9.5 ether left
	require.NoError(t, k.Validators.Set(ctx, addr, types.Validator{
		Pubkey:    common.Hex2Bytes("034d96d43803ff6b1579587b8a515066f7acebf5041a09706ee9f38a69f8f67ff6"),
		Reward:    math.ZeroInt(),
		GasReward: math.ZeroInt(),
		Status:    types.Tombstoned,
		Locking:   sdk.NewCoins(sdk.NewCoin(denom, math.NewIntFromUint64(95e17))),
	}))

	// partial unlock: 1 ether out, 8.5 ether (>= threshold) remains
	require.NoError(t, k.Unlock(ctx, []*goattypes.UnlockRequest{
		{Id: 7, Validator: common.Address(addr), Recipient: recipient, Token: common.Address{}, Amount: big.NewInt(1e18)},
	}))

	validator, err := k.Validators.Get(ctx, addr)
	require.NoError(t, err)
	require.Equal(t, types.Tombstoned, validator.Status)
	require.Zero(t, validator.Power)
	require.Equal(t, sdk.NewCoins(sdk.NewCoin(denom, math.NewIntFromUint64(85e17))), validator.Locking)

	// the only queue entry must mature at the exiting time
	iter, err := k.UnlockQueue.Iterate(ctx, nil)
	require.NoError(t, err)
	kvs, err := iter.KeyValues()
	require.NoError(t, err)
	require.Len(t, kvs, 1)
	require.Len(t, kvs[0].Value.Unlocks, 1)
	require.EqualValues(t, 7, kvs[0].Value.Unlocks[0].Id)
	require.Equal(t, now.Add(param.ExitingDuration).Unix(), kvs[0].Key.Unix(),
		"tombstoned validator unlock must wait for the exiting duration")

	// nothing may be released one instant before the exiting delay is over
	early := ctx.WithBlockTime(now.Add(param.ExitingDuration - time.Nanosecond))
	require.NoError(t, k.DequeueMatureUnlocks(early))
	queue, err := k.EthTxQueue.Get(early)
	require.NoError(t, err)
	require.Empty(t, queue.Unlocks, "unlock released before the exiting duration")

	// and it is released exactly once when the delay is over
	mature := ctx.WithBlockTime(now.Add(param.ExitingDuration))
	require.NoError(t, k.DequeueMatureUnlocks(mature))
	require.NoError(t, k.DequeueMatureUnlocks(mature))
	queue, err = k.EthTxQueue.Get(mature)
	require.NoError(t, err)
	require.Len(t, queue.Unlocks, 1)
	require.EqualValues(t, 7, queue.Unlocks[0].Id)
	require.Equal(t, math.NewInt(1e18), queue.Unlocks[0].Amount)
}
