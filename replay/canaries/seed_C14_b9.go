// Canary derived from the demonstration test of the seeded change /verif/seeded/C14_b9 (fails on code with that defect, passes on the original).
package keeper_test

import (
	"math/big"
	"testing"
	"time"

	"cosmossdk.io/math"
	abci "github.com/cometbft/cometbft/abci/types"
	tmtypes "github.com/cometbft/cometbft/proto/tendermint/types"
	sdk "github.com/cosmos/cosmos-sdk/types"
	"github.com/ethereum/go-ethereum/common"
	"github.com/ethereum/go-ethereum/core/types/goattypes"
	keepertest "github.com/goatnetwork/goat/testutil/keeper"
	"github.com/goatnetwork/goat/testutil/mock"
	"github.com/goatnetwork/goat/x/locking/types"
	"github.com/stretchr/testify/require"
	"go.uber.org/mock/gomock"
)

// C14: a downtime offence is punished exactly once. A validator that was
// jailed for downtime, waited for the jail time, topped up its locking and
// got back into the validator set must not be jailed and slashed again for
// the very same misses while it is signing every block.
func TestVerifReplay(t *testing.T) {
	ctl := gomock.NewController(t)
	defer ctl.Finish()
	k, ctx := keepertest.LockingKeeper(t, mock.NewMockAccountKeeper(ctl))

	denom := types.TokenDenom(common.Address{})
	valAddr := common.HexToAddress("f52a75aa5be8d8c9e3580ea6ba818e68de4fb76e")
	consAddr := sdk.ConsAddress(valAddr.Bytes())

	param := types.DefaultParams()
	param.SignedBlocksWindow = 100
	param.MaxMissedPerWindow = 3
	param.DowntimeJailDuration = time.Hour
	param.SlashFractionDowntime = math.LegacyNewDecWithPrec(2, 2)
	require.NoError(t, k.Params.Set(ctx, param))

	require.NoError(t, k.Tokens.Set(ctx, denom, types.Token{Weight: 1e4, Threshold: math.NewIntFromUint64(1e18)}))
	require.NoError(t, k.Threshold.Set(ctx, types.Threshold{
		List: sdk.NewCoins(sdk.NewCoin(denom, math.NewIntFromUint64(1e18))),
	}))
	require.NoError(t, k.Validators.Set(ctx, consAddr, types.Validator{
		Pubkey:    common.Hex2Bytes("03df9b92d37f4e3dec8ea95de7ab9f54879b978cebafd77a8528e7d832594a2af5"),
		Reward:    math.ZeroInt(),
		GasReward: math.ZeroInt(),
		Status:    types.Pending,
	}))

	now := time.Now().UTC()
	height := int64(1)
	ctx = ctx.WithBlockTime(now).WithBlockHeight(height)

	vote := func(flag tmtypes.BlockIDFlag) {
		t.Helper()
		height++
		now = now.Add(time.Second)
		ctx = ctx.WithBlockHeight(height).WithBlockTime(now).WithVoteInfos([]abci.VoteInfo{{
			Validator:   abci.Validator{Address: consAddr},
			BlockIdFlag: flag,
		}})
		require.NoError(t, k.HandleVoteInfos(ctx))
		_, err := k.EndBlocker(ctx)
		require.NoError(t, err)
	}
	status := func() types.Validator {
		t.Helper()
		v, err := k.Validators.Get(ctx, consAddr)
		require.NoError(t, err)
		return v
	}

	// join the validator set
	require.NoError(t, k.Lock(ctx, []*goattypes.LockRequest{
		{Validator: valAddr, Token: common.Address{}, Amount: new(big.Int).SetUint64(2e18)},
	}))
	_, err := k.EndBlocker(ctx)
	require.NoError(t, err)
	require.Equal(t, types.Active, status().Status)

	// some signed blocks, then the offence: 3 absent votes early in the window
	vote(tmtypes.BlockIDFlagCommit)
	vote(tmtypes.BlockIDFlagCommit)
	vote(tmtypes.BlockIDFlagAbsent)
	vote(tmtypes.BlockIDFlagAbsent)
	require.Equal(t, types.Active, status().Status)
	vote(tmtypes.BlockIDFlagAbsent)

	jailed := status()
	require.Equal(t, types.Downgrade, jailed.Status)
	require.Zero(t, jailed.Power)
	require.Equal(t, "1960000000000000000", jailed.Locking.AmountOf(denom).String())
	slashedOnce, err := k.Slashed.Get(ctx, denom)
	require.NoError(t, err)
	require.Equal(t, "40000000000000000", slashedOnce.String())
	has, err := k.ValidatorSet.Has(ctx, consAddr)
	require.NoError(t, err)
	require.False(t, has)

	// the jail time passes, the validator tops up and comes back
	now = now.Add(param.DowntimeJailDuration + time.Minute)
	height++
	ctx = ctx.WithBlockHeight(height).WithBlockTime(now).WithVoteInfos(nil)
	require.NoError(t, k.Lock(ctx, []*goattypes.LockRequest{
		{Validator: valAddr, Token: common.Address{}, Amount: new(big.Int).SetUint64(4e16)},
	}))
	require.Equal(t, types.Pending, status().Status)
	_, err = k.EndBlocker(ctx)
	require.NoError(t, err)
	require.Equal(t, types.Active, status().Status)

	// it signs every block from now on: no new offence, no new punishment
	for i := 0; i < 5; i++ {
		vote(tmtypes.BlockIDFlagCommit)
		v := status()
		require.Equal(t, types.Active, v.Status, "punished twice for one downtime offence")
		require.Equal(t, "2000000000000000000", v.Locking.AmountOf(denom).String())
		require.EqualValues(t, 20000, v.Power)
	}
	slashedNow, err := k.Slashed.Get(ctx, denom)
	require.NoError(t, err)
	require.Equal(t, slashedOnce.String(), slashedNow.String(), "downtime slashed more than once")
	has, err = k.ValidatorSet.Has(ctx, consAddr)
	require.NoError(t, err)
	require.True(t, has)
}
