package keeper_test

// Canary input for C18 (every reachable state exports to a genesis that initialises a fresh chain): a deposit-tax
// request from the execution layer that leaves the stored parameters in a combination Params.Validate rejects.
// bitcoin InitGenesis starts with genState.Validate() -> Params.Validate() and panics on an error, so an export taken
// after such a request cannot be imported. Three inputs, one per clause of the tax-pair rule.

import (
	"testing"

	"github.com/ethereum/go-ethereum/core/types/goattypes"
	keepertest "github.com/goatnetwork/goat/testutil/keeper"
	"github.com/goatnetwork/goat/testutil/mock"
	bitcoin "github.com/goatnetwork/goat/x/bitcoin/module"
	"github.com/goatnetwork/goat/x/bitcoin/types"
	"go.uber.org/mock/gomock"
)

func TestVerifReplay(t *testing.T) {
	cases := []struct {
		name string
		reqs []*goattypes.DepositTaxRequest
	}{
		{"rate 5 without cap", []*goattypes.DepositTaxRequest{{Rate: 5, Max: 0}}},
		{"cap above 1e8", []*goattypes.DepositTaxRequest{{Rate: 5, Max: 100000001}}},
		{"cap with an ignored rate on a zero-rate state", []*goattypes.DepositTaxRequest{{Rate: 10000, Max: 7}}},
	}
	_ = bitcoin.InitGenesis // the importer whose first statement is genState.Validate()
	bad := 0
	for _, c := range cases {
		ctl := gomock.NewController(t)
		k, ctx, _ := keepertest.BitcoinKeeper(t, mock.NewMockRelayerKeeper(ctl))
		params := types.DefaultParams()
		if err := params.Validate(); err != nil {
			t.Fatalf("default params must validate: %v", err)
		}
		if err := k.Params.Set(ctx, params); err != nil {
			t.Fatal(err)
		}
		if err := k.EthTxQueue.Set(ctx, types.EthTxQueue{}); err != nil {
			t.Fatal(err)
		}
		if err := k.ProcessBridgeRequest(ctx, goattypes.BridgeRequests{DepositTax: c.reqs}); err != nil {
			t.Logf("%s: request rejected (%v): state unchanged", c.name, err)
			continue
		}
		stored, err := k.Params.Get(ctx)
		if err != nil {
			t.Fatal(err)
		}
		gs := types.GenesisState{Params: stored}
		if err := gs.Params.Validate(); err != nil {
			bad++
			t.Logf("%s: stored Params{DepositTaxRate: %d, MaxDepositTax: %d} rejected by genesis validation: %v", c.name, stored.DepositTaxRate, stored.MaxDepositTax, err)
		}
	}
	if bad > 0 {
		t.Fatalf("VERIF-REPLAY-VIOLATED %d of %d deposit-tax requests leave parameters that bitcoin InitGenesis refuses (panic in genState.Validate())", bad, len(cases))
	}
}
