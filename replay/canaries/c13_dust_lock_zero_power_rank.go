package keeper_test

// Canary input for C13 (no zero-power entry in the power ranking / no zero-power addition reported to CometBFT):
// a pending validator with power 0 locks dust (amount*weight < 10^18) of a weight-1 token.

import (
	"math/big"
	"testing"

	"cosmossdk.io/collections"
	"cosmossdk.io/math"
	sdk "github.com/cosmos/cosmos-sdk/types"
	"github.com/ethereum/go-ethereum/common"
	"github.com/ethereum/go-ethereum/core/types/goattypes"
	keepertest "github.com/goatnetwork/goat/testutil/keeper"
	"github.com/goatnetwork/goat/testutil/mock"
	"github.com/goatnetwork/goat/x/locking/types"
	"go.uber.org/mock/gomock"
)

func TestVerifReplay(t *testing.T) {
	ctl := gomock.NewController(t)
	k, ctx := keepertest.LockingKeeper(t, mock.NewMockAccountKeeper(ctl))
	val := common.HexToAddress("0x00000000000000000000000000000000000000aa")
	addr := sdk.ConsAddress(val.Bytes())
	token := common.Address{}
	denom := types.TokenDenom(token)
	must := func(err error) {
		if err != nil {
			t.Fatal(err)
		}
	}
	must(k.Validators.Set(ctx, addr, types.Validator{Pubkey: common.Hex2Bytes("03df9b92d37f4e3dec8ea95de7ab9f54879b978cebafd77a8528e7d832594a2af5"), Power: 0, Reward: math.ZeroInt(), GasReward: math.ZeroInt(), Status: types.Pending}))
	must(k.Tokens.Set(ctx, denom, types.Token{Weight: 1, Threshold: math.ZeroInt()}))
	must(k.Threshold.Set(ctx, types.Threshold{}))
	must(k.Params.Set(ctx, types.DefaultParams()))
	must(k.Lock(ctx, []*goattypes.LockRequest{{Validator: val, Token: token, Amount: big.NewInt(999999999999999999)}}))
	has, err := k.PowerRanking.Has(ctx, collections.Join(uint64(0), addr))
	must(err)
	if !has {
		return
	}
	updates, err := k.EndBlocker(ctx)
	must(err)
	for _, u := range updates {
		if u.Power == 0 {
			t.Fatalf("VERIF-REPLAY-VIOLATED dust lock ranked the validator with power 0; the end blocker reports ValidatorUpdate{Power: 0} for a validator CometBFT does not know (%d updates)", len(updates))
		}
	}
	t.Fatalf("VERIF-REPLAY-VIOLATED power ranking holds an entry with power 0")
}
