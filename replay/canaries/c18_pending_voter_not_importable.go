package keeper_test

// Canary input for C18: a voter registration request from the execution layer stores a PENDING voter whose VoteKey is
// the 32-byte key hash; relayer InitGenesis starts with genState.Validate(), which demands a 96-byte BLS key for
// every exported voter, so an export taken while any voter is pending cannot be imported.

import (
	"testing"

	"github.com/ethereum/go-ethereum/common"
	"github.com/ethereum/go-ethereum/core/types/goattypes"
	keepertest "github.com/goatnetwork/goat/testutil/keeper"
	"github.com/goatnetwork/goat/x/relayer/types"
)

func TestVerifReplay(t *testing.T) {
	k, ctx, _ := keepertest.RelayerKeeper(t, nil)
	req := goattypes.RelayerRequests{Adds: []*goattypes.AddVoterRequest{{Voter: common.HexToAddress("0x00000000000000000000000000000000000000aa"), Pubkey: common.HexToHash("0x01")}}}
	if err := k.ProcessRelayerRequest(ctx, req); err != nil {
		t.Fatal(err)
	}
	var voters []types.Voter
	it, err := k.Voters.Iterate(ctx, nil)
	if err != nil {
		t.Fatal(err)
	}
	defer it.Close()
	for ; it.Valid(); it.Next() {
		v, err := it.Value()
		if err != nil {
			t.Fatal(err)
		}
		voters = append(voters, v)
	}
	if len(voters) != 1 {
		t.Fatalf("expected the pending voter to be stored, got %d records", len(voters))
	}
	gs := types.GenesisState{Params: types.DefaultParams(), Voters: voters}
	if err := gs.Validate(); err != nil {
		t.Fatalf("VERIF-REPLAY-VIOLATED exported pending voter (VoteKey of %d bytes) rejected by relayer genesis validation: %v", len(voters[0].VoteKey), err)
	}
}
