// Canary derived from the demonstration test of the seeded change /verif/seeded/C13_b3 (fails on code with that defect, passes on the original).
package keeper_test

import (
	"bytes"
	"sort"
	"testing"

	"cosmossdk.io/collections"
	"cosmossdk.io/math"
	abci "github.com/cometbft/cometbft/abci/types"
	sdk "github.com/cosmos/cosmos-sdk/types"
	"github.com/ethereum/go-ethereum/common"
	"github.com/ethereum/go-ethereum/core/types/goattypes"
	keepertest "github.com/goatnetwork/goat/testutil/keeper"
	"github.com/goatnetwork/goat/x/locking/keeper"
	"github.com/goatnetwork/goat/x/locking/types"
	"github.com/stretchr/testify/require"
)

// seedCometSet is the consensus engine's view: the validator updates accumulated from genesis
type seedCometSet map[string]int64 // pubkey => power

// apply replays what CometBFT does with the updates of a block and rejects what it would reject
func (s seedCometSet) apply(t *testing.T, updates []abci.ValidatorUpdate) {
	t.Helper()
	seen := make(map[string]bool)
	for _, u := range updates {
		pk := string(u.PubKey.GetSecp256K1())
		require.False(t, seen[pk], "duplicate update for %x", pk)
		seen[pk] = true
		require.GreaterOrEqual(t, u.Power, int64(0), "negative power for %x", pk)
		if u.Power == 0 {
			_, member := s[pk]
			require.True(t, member, "removal of the non-member %x", pk)
			delete(s, pk)
			continue
		}
		s[pk] = u.Power
	}
}

// seedCheckC13 asserts that the module's record of the active set is the top-K by power of the
// eligible validators (ties by address) and equals the set known to the consensus engine
func seedCheckC13(t *testing.T, k keeper.Keeper, ctx sdk.Context, comet seedCometSet) {
	t.Helper()

	param, err := k.Params.Get(ctx)
	require.NoError(t, err)

	type candidate struct {
		addr   sdk.ConsAddress
		pubkey []byte
		power  uint64
	}

	var eligible []candidate
	validators := make(map[string]types.Validator)
	require.NoError(t, k.Validators.Walk(ctx, nil, func(addr sdk.ConsAddress, v types.Validator) (bool, error) {
		validators[string(addr)] = v
		if (v.Status == types.Active || v.Status == types.Pending) && v.Power > 0 {
			eligible = append(eligible, candidate{addr: addr, pubkey: v.Pubkey, power: v.Power})
		}
		return false, nil
	}))

	sort.Slice(eligible, func(i, j int) bool {
		if eligible[i].power != eligible[j].power {
			return eligible[i].power > eligible[j].power
		}
		return bytes.Compare(eligible[i].addr, eligible[j].addr) > 0
	})
	if int64(len(eligible)) > param.MaxValidators {
		eligible = eligible[:param.MaxValidators]
	}

	record := make(map[string]uint64)
	require.NoError(t, k.ValidatorSet.Walk(ctx, nil, func(addr sdk.ConsAddress, power uint64) (bool, error) {
		record[string(addr)] = power
		return false, nil
	}))

	require.LessOrEqual(t, int64(len(record)), param.MaxValidators)
	for addr, power := range record {
		v, ok := validators[addr]
		require.True(t, ok)
		require.Equal(t, types.Active, v.Status, "member %x is not active", addr)
		require.NotZero(t, power)
		require.Equal(t, v.Power, power, "member %x has a stale power", addr)
		require.EqualValues(t, power, comet[string(v.Pubkey)], "consensus engine has another power for %x", addr)
	}
	require.Len(t, comet, len(record), "consensus engine and module disagree on the set size")

	require.Len(t, record, len(eligible), "the active set is not the top-K of the eligible validators")
	for _, c := range eligible {
		power, ok := record[string(c.addr)]
		require.True(t, ok, "eligible validator %x with power %d is left out of the active set", c.addr.Bytes(), c.power)
		require.Equal(t, c.power, power)
	}
}

func TestVerifReplay(t *testing.T) {
	k, ctx := keepertest.LockingKeeper(t, nil)

	param := types.DefaultParams()
	param.MaxValidators = 2
	require.NoError(t, k.Params.Set(ctx, param))

	tokens := map[string]types.Token{
		NativeTokenDenom: {Weight: 1e4, Threshold: math.NewIntFromUint64(1e18)},
		TestTokenDenom:   {Weight: 1, Threshold: math.ZeroInt()},
	}
	for denom, token := range tokens {
		require.NoError(t, k.Tokens.Set(ctx, denom, token))
	}
	require.NoError(t, k.Threshold.Set(ctx, types.Threshold{
		List: sdk.NewCoins(sdk.NewCoin(NativeTokenDenom, math.NewIntFromUint64(1e18))),
	}))

	addresses := []sdk.ConsAddress{
		sdk.ConsAddress(common.Hex2Bytes("f52a75aa5be8d8c9e3580ea6ba818e68de4fb76e")),
		sdk.ConsAddress(common.Hex2Bytes("108ca95b90e680f7e4374f911521941fe78b85ce")),
		sdk.ConsAddress(common.Hex2Bytes("5f2354785046bc2d3b65681af66ee4ccc34b95f7")),
	}

	validators := []types.Validator{
		// the strongest validator; half a test token is on top of its 3 btc, it is worth no power
		{
			Pubkey:    common.Hex2Bytes("03df9b92d37f4e3dec8ea95de7ab9f54879b978cebafd77a8528e7d832594a2af5"),
			Reward:    math.ZeroInt(),
			GasReward: math.ZeroInt(),
			Power:     30000,
			Status:    types.Active,
			Locking: sdk.NewCoins(
				sdk.NewCoin(NativeTokenDenom, math.NewIntFromUint64(3e18)),
				sdk.NewCoin(TestTokenDenom, math.NewIntFromUint64(5e17)),
			),
		},
		{
			Pubkey:    common.Hex2Bytes("03baf046326e0d1f48ad417b7336727e4454a286461ce1b2d01d50b3029468fd63"),
			Reward:    math.ZeroInt(),
			GasReward: math.ZeroInt(),
			Power:     20000,
			Status:    types.Active,
			Locking:   sdk.NewCoins(sdk.NewCoin(NativeTokenDenom, math.NewIntFromUint64(2e18))),
		},
		// the candidate waiting for a seat
		{
			Pubkey:    common.Hex2Bytes("0236ea9615e7d0931ff24701a154d9e53ea4722b754710f22c8136058a7f251d73"),
			Reward:    math.ZeroInt(),
			GasReward: math.ZeroInt(),
			Power:     10000,
			Status:    types.Pending,
			Locking:   sdk.NewCoins(sdk.NewCoin(NativeTokenDenom, math.NewIntFromUint64(1e18))),
		},
	}

	// the same state InitGenesis builds
	comet := make(seedCometSet)
	for idx, validator := range validators {
		require.NoError(t, k.Validators.Set(ctx, addresses[idx], validator))
		for _, locking := range validator.Locking {
			require.NoError(t, k.Locking.Set(ctx, collections.Join(locking.Denom, addresses[idx]), locking.Amount))
		}
		require.NoError(t, k.PowerRanking.Set(ctx, collections.Join(validator.Power, addresses[idx])))
		if validator.Status == types.Active {
			require.NoError(t, k.ValidatorSet.Set(ctx, addresses[idx], validator.Power))
			comet[string(validator.Pubkey)] = int64(validator.Power)
		}
	}

	// block 1: nothing happens
	updates, err := k.EndBlocker(ctx)
	require.NoError(t, err)
	require.Empty(t, updates)
	comet.apply(t, updates)
	seedCheckC13(t, k, ctx, comet)

	// block 2: the weight of the test token is doubled, the half token is still worth no power
	require.NoError(t, k.UpdateTokens(ctx,
		[]*goattypes.UpdateTokenWeightRequest{{Token: TestToken, Weight: 2}}, nil))

	updates, err = k.EndBlocker(ctx)
	require.NoError(t, err)
	comet.apply(t, updates)
	seedCheckC13(t, k, ctx, comet)
	require.Empty(t, updates, "no power is changed, the validator set has to stay")

	// block 3: and the other way round
	require.NoError(t, k.UpdateTokens(ctx,
		[]*goattypes.UpdateTokenWeightRequest{{Token: TestToken, Weight: 1}}, nil))

	updates, err = k.EndBlocker(ctx)
	require.NoError(t, err)
	comet.apply(t, updates)
	seedCheckC13(t, k, ctx, comet)
	require.Empty(t, updates, "no power is changed, the validator set has to stay")
}
