package types

// Canary input for C08 (PayloadToExecutableData must not write to the shared payload): an execution
// payload without transactions (Transactions == nil), i.e. every empty execution block.

import "testing"

func TestVerifReplay(t *testing.T) {
	p := &ExecutionPayload{}
	_ = PayloadToExecutableData(p)
	if p.Transactions != nil {
		t.Fatalf("VERIF-REPLAY-VIOLATED argument mutated: Transactions nil -> %#v (read concurrently by the other proposal-checking goroutine)", p.Transactions)
	}
}
