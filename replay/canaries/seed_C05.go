// Canary derived from the demonstration test of the seeded change /verif/seeded/C05 (fails on code with that defect, passes on the original).
package keeper_test

import (
	"testing"

	"github.com/ethereum/go-ethereum/common"
	"github.com/ethereum/go-ethereum/core/types/goattypes"
	goatcrypto "github.com/goatnetwork/goat/pkg/crypto"
	keepertest "github.com/goatnetwork/goat/testutil/keeper"
	"github.com/goatnetwork/goat/testutil/mock"
	"github.com/goatnetwork/goat/x/bitcoin/keeper"
	"github.com/goatnetwork/goat/x/bitcoin/types"
	relayertypes "github.com/goatnetwork/goat/x/relayer/types"
	"github.com/stretchr/testify/require"
	"go.uber.org/mock/gomock"
)

// C05: a withdrawal may only be (re)bound to a voted bitcoin transaction whose
// fee rate is not above the user's CURRENT maximum. The fee-bump handler has to
// refuse a replacement whose rate is strictly between max and max+1 sat/byte.
func TestVerifReplay(t *testing.T) {
	ctl := gomock.NewController(t)
	rk := mock.NewMockRelayerKeeper(ctl)
	k, ctx, _ := keepertest.BitcoinKeeper(t, rk)
	msgServer := keeper.NewMsgServerImpl(k)

	rk.EXPECT().VerifyProposal(gomock.Any(), gomock.Any()).Return(uint64(7), nil).AnyTimes()
	rk.EXPECT().SetProposalSeq(gomock.Any(), gomock.Any()).Return(nil).AnyTimes()
	rk.EXPECT().UpdateRandao(gomock.Any(), gomock.Any()).Return(nil).AnyTimes()

	addresses := []string{
		"mqEgATpvdzTNpdpCRAomE9nCH8cw7Sp4R3",
		"2Mu3CdYeLs1Jb7ywDwfgtE58u5z1yseD2KN",
		"bcrt1qy728d54p6ftlpnwvfpjpkdne6sg3saq4qzezpx",
		"bcrt1q8kk55x5qcwf97a9y3apfam9yx3q2mc9wu02ak6yquua5wjtpvvwsggh3r2",
		"bcrt1qpjzz885yglnu8dr3kfnnvc27kakyw4w9h9z3vdmftrchurdyvj8srq7d9m",
	}

	require.NoError(t, k.EthTxQueue.Set(ctx, types.EthTxQueue{}))
	require.NoError(t, k.Pubkey.Set(ctx, relayertypes.PublicKey{Key: &relayertypes.PublicKey_Secp256K1{
		Secp256K1: common.Hex2Bytes("037e7bee29c1956152e308d1310823295d720b4cef9e1118726eb1705ffc5a4701"),
	}}))

	// 1. users request the withdrawals, generous max tx price
	var ids []uint64
	var reqs []*goattypes.WithdrawalRequest
	for i, addr := range addresses {
		ids = append(ids, uint64(i))
		reqs = append(reqs, &goattypes.WithdrawalRequest{Id: uint64(i), Amount: 1e3, TxPrice: 50, Address: addr})
	}
	require.NoError(t, k.ProcessBridgeRequest(ctx, goattypes.BridgeRequests{Withdraws: reqs}))

	// 2. relayer processes them (about 3.4 sat/byte)
	firstTx := common.Hex2Bytes("02000000012e0e3e521ac999cfc292a78aaeb31fe19dfb7867c660ae5560537370d55fdf0e0000000000ffffffff06e8030000000000001976a9146a9d23174484d7ba74f7bc2a64ed102b4846267588ace80300000000000017a91413aa207651e0f3724cbe6134f54675aa2d5cdbf987e803000000000000160014279476d2a1d257f0cdcc48641b3679d411187415e8030000000000002200203dad4a1a80c3925f74a48f429eeca43440ade0aee3d5db6880e73b474961631de8030000000000002200200c84239e8447e7c3b471b26736615eb76c4755c5b94516376958f17e0da4648f90c9f505000000001600145b029559baaea5e928e8e2774e9e2350a5fc9c2d00000000")
	_, err := msgServer.ProcessWithdrawal(ctx, &types.MsgProcessWithdrawal{
		Proposer:    "goat1xa56637tjn857jyg2plgvhdclzmr4crxzn5xus",
		Vote:        &relayertypes.Votes{Signature: make([]byte, goatcrypto.SignatureLength)},
		Id:          ids,
		NoWitnessTx: firstTx,
		TxFee:       1000,
	})
	require.NoError(t, err)

	// 3. the user of withdrawal 3 lowers the maximum to 5 sat/byte while it is processing
	const userMax = 5
	require.NoError(t, k.ProcessBridgeRequest(ctx, goattypes.BridgeRequests{
		ReplaceByFees: []*goattypes.ReplaceByFeeRequest{{Id: 3, TxPrice: userMax}},
	}))
	wd3, err := k.Withdrawals.Get(ctx, 3)
	require.NoError(t, err)
	require.EqualValues(t, userMax, wd3.MaxTxPrice)

	// 4. relayer fee-bumps with a rate strictly between 5 and 6 sat/byte
	secondTx := common.Hex2Bytes("02000000012e0e3e521ac999cfc292a78aaeb31fe19dfb7867c660ae5560537370d55fdf0e0000000000ffffffff06b0030000000000001976a9146a9d23174484d7ba74f7bc2a64ed102b4846267588aca00300000000000017a91413aa207651e0f3724cbe6134f54675aa2d5cdbf987e303000000000000160014279476d2a1d257f0cdcc48641b3679d41118741599030000000000002200203dad4a1a80c3925f74a48f429eeca43440ade0aee3d5db6880e73b474961631de3030000000000002200200c84239e8447e7c3b471b26736615eb76c4755c5b94516376958f17e0da4648f10270000000000001600145b029559baaea5e928e8e2774e9e2350a5fc9c2d00000000")
	size := uint64(len(secondTx))
	overFee := userMax*size + size - 1 // 5.99.. sat/byte > 5
	require.Greater(t, float64(overFee)/float64(size), float64(userMax))

	cached, _ := ctx.CacheContext() // a failed message does not commit
	_, err = msgServer.ReplaceWithdrawal(cached, &types.MsgReplaceWithdrawal{
		Proposer:       "goat1xa56637tjn857jyg2plgvhdclzmr4crxzn5xus",
		Vote:           &relayertypes.Votes{Signature: make([]byte, goatcrypto.SignatureLength)},
		Pid:            0,
		NewNoWitnessTx: secondTx,
		NewTxFee:       overFee,
	})
	require.Error(t, err, "replacement at %d sat / %d bytes exceeds the user's max tx price %d and must be refused", overFee, size, userMax)

	// 5. exactly the user's maximum is still fine
	_, err = msgServer.ReplaceWithdrawal(ctx, &types.MsgReplaceWithdrawal{
		Proposer:       "goat1xa56637tjn857jyg2plgvhdclzmr4crxzn5xus",
		Vote:           &relayertypes.Votes{Signature: make([]byte, goatcrypto.SignatureLength)},
		Pid:            0,
		NewNoWitnessTx: secondTx,
		NewTxFee:       userMax * size,
	})
	require.NoError(t, err)
	processing, err := k.Processing.Get(ctx, 0)
	require.NoError(t, err)
	require.Len(t, processing.Txid, 2)
	require.EqualValues(t, userMax*size, processing.Fee)
}
