// Canary derived from the demonstration test of the seeded change /verif/seeded/C14_b3 (fails on code with that defect, passes on the original).
package keeper_test

import (
	"math/big"
	"testing"
	"time"

	"cosmossdk.io/collections"
	"cosmossdk.io/math"
	abci "github.com/cometbft/cometbft/abci/types"
	tmtypes "github.com/cometbft/cometbft/proto/tendermint/types"
	sdk "github.com/cosmos/cosmos-sdk/types"
	"github.com/ethereum/go-ethereum/common"
	"github.com/ethereum/go-ethereum/core/types/goattypes"
	keepertest "github.com/goatnetwork/goat/testutil/keeper"
	"github.com/goatnetwork/goat/testutil/mock"
	"github.com/goatnetwork/goat/x/locking/types"
	"github.com/stretchr/testify/require"
	"go.uber.org/mock/gomock"
)

// C14: validators that are not active are not counted for downtime.
//
// A validator that leaves the active set (here: it exits by unlocking below
// the token threshold) is still part of the comet commit for the following
// block(s) because validator updates are applied with a delay. Its absent
// votes in those lagging commits must not be counted: it must neither be
// slashed nor be turned into a jailed (Downgrade) validator, which would later
// allow it to "unjail" itself back into the validator set.
func TestVerifReplay(t *testing.T) {
	ctl := gomock.NewController(t)
	defer ctl.Finish()
	k, ctx := keepertest.LockingKeeper(t, mock.NewMockAccountKeeper(ctl))

	param := types.DefaultParams()
	param.SignedBlocksWindow = 10
	param.MaxMissedPerWindow = 3
	param.DowntimeJailDuration = time.Hour
	require.NoError(t, param.Validate())
	require.NoError(t, k.Params.Set(ctx, param))

	tokens := map[string]types.Token{
		NativeTokenDenom: {Weight: 1e4, Threshold: math.NewIntFromUint64(1e18)},
		TestTokenDenom:   {Weight: 1, Threshold: math.ZeroInt()},
	}
	for denom, token := range tokens {
		require.NoError(t, k.Tokens.Set(ctx, denom, token))
	}
	require.NoError(t, k.Threshold.Set(ctx, types.Threshold{
		List: sdk.NewCoins(sdk.NewCoin(NativeTokenDenom, math.NewIntFromUint64(1e18))),
	}))
	require.NoError(t, k.EthTxQueue.Set(ctx, types.EthTxQueue{}))

	// two active validators, the first one is the subject
	addrs := []sdk.ConsAddress{
		common.Hex2Bytes("f0933654a540830e283b87bba9ff2eb16b5acd1d"),
		common.Hex2Bytes("108ca95b90e680f7e4374f911521941fe78b85ce"),
	}
	pubkeys := [][]byte{
		common.Hex2Bytes("03ac22905ded6095255f498cd5cb217b6ebf0d82c7df2c89bce6e9089dd51e6f50"),
		common.Hex2Bytes("03baf046326e0d1f48ad417b7336727e4454a286461ce1b2d01d50b3029468fd63"),
	}
	for i, addr := range addrs {
		val := types.Validator{
			Pubkey:    pubkeys[i],
			Power:     10000,
			Reward:    math.ZeroInt(),
			GasReward: math.ZeroInt(),
			Status:    types.Active,
			Locking: sdk.NewCoins(
				sdk.NewCoin(NativeTokenDenom, math.NewIntFromUint64(1e18)),
				sdk.NewCoin(TestTokenDenom, math.NewIntFromUint64(1000)),
			),
		}
		require.NoError(t, k.Validators.Set(ctx, addr, val))
		for _, c := range val.Locking {
			require.NoError(t, k.Locking.Set(ctx, collections.Join(c.Denom, addr), c.Amount))
		}
		require.NoError(t, k.PowerRanking.Set(ctx, collections.Join(val.Power, addr)))
		require.NoError(t, k.ValidatorSet.Set(ctx, addr, val.Power))
	}
	subject := addrs[0]

	now := time.Now().UTC()
	votes := func(flag tmtypes.BlockIDFlag) []abci.VoteInfo {
		return []abci.VoteInfo{
			{Validator: abci.Validator{Address: subject, Power: 10000}, BlockIdFlag: flag},
			{Validator: abci.Validator{Address: addrs[1], Power: 10000}, BlockIdFlag: tmtypes.BlockIDFlagCommit},
		}
	}
	blockCtx := func(height int64) sdk.Context {
		return ctx.WithBlockHeight(height).WithBlockTime(now.Add(time.Duration(height) * 3 * time.Second))
	}

	// blocks 1,2: the subject is absent twice, one short of the limit
	for h := int64(1); h <= 2; h++ {
		require.NoError(t, k.HandleVoteInfos(blockCtx(h).WithVoteInfos(votes(tmtypes.BlockIDFlagAbsent))))
	}
	val, err := k.Validators.Get(ctx, subject)
	require.NoError(t, err)
	require.Equal(t, types.Active, val.Status)
	require.Equal(t, types.SigningInfo{Missed: 2, Offset: 2}, val.SigningInfo)

	// block 3: the subject signs, then exits by unlocking its whole native stake
	b3 := blockCtx(3)
	require.NoError(t, k.HandleVoteInfos(b3.WithVoteInfos(votes(tmtypes.BlockIDFlagCommit))))
	require.NoError(t, k.Unlock(b3, []*goattypes.UnlockRequest{{
		Id: 1, Validator: common.BytesToAddress(subject), Recipient: common.HexToAddress("0x01"),
		Token: NativeToken, Amount: big.NewInt(1e18),
	}}))
	updates, err := k.EndBlocker(b3)
	require.NoError(t, err)
	require.Len(t, updates, 1)
	require.Zero(t, updates[0].Power)

	exited, err := k.Validators.Get(ctx, subject)
	require.NoError(t, err)
	require.Equal(t, types.Inactive, exited.Status)
	require.Zero(t, exited.Power)
	require.Equal(t, sdk.NewCoins(sdk.NewCoin(TestTokenDenom, math.NewIntFromUint64(1000))), exited.Locking)

	// block 4: comet still reports the subject in the last commit (update
	// delay) and it is absent; a validator that is not active is not counted
	require.NoError(t, k.HandleVoteInfos(blockCtx(4).WithVoteInfos(votes(tmtypes.BlockIDFlagAbsent))))

	after, err := k.Validators.Get(ctx, subject)
	require.NoError(t, err)
	require.Equal(t, types.Inactive, after.Status, "not active validator was counted for downtime")
	require.Equal(t, exited.Locking, after.Locking, "not active validator was slashed for downtime")
	require.True(t, after.JailedUntil.IsZero(), "not active validator was jailed")
	hasSlashed, err := k.Slashed.Has(ctx, TestTokenDenom)
	require.NoError(t, err)
	require.False(t, hasSlashed, "slashed pool was credited for a not active validator")

	// later: locking to the exited validator must not bring it back
	later := blockCtx(5).WithBlockTime(now.Add(2 * param.DowntimeJailDuration))
	require.NoError(t, k.Lock(later, []*goattypes.LockRequest{{
		Validator: common.BytesToAddress(subject), Token: NativeToken, Amount: big.NewInt(1e18),
	}}))
	updates, err = k.EndBlocker(later)
	require.NoError(t, err)
	require.Empty(t, updates, "exited validator re-entered the validator set")

	final, err := k.Validators.Get(ctx, subject)
	require.NoError(t, err)
	require.Equal(t, types.Inactive, final.Status)
	require.Zero(t, final.Power)
	inSet, err := k.ValidatorSet.Has(ctx, subject)
	require.NoError(t, err)
	require.False(t, inSet)
}
