// Canary derived from the demonstration test of the seeded change /verif/seeded/C01 (fails on code with that defect, passes on the original).
package keeper_test

import (
	"encoding/binary"
	"testing"
	"time"

	sdktypes "github.com/cosmos/cosmos-sdk/types"
	goatcrypto "github.com/goatnetwork/goat/pkg/crypto"
	keepertest "github.com/goatnetwork/goat/testutil/keeper"
	"github.com/goatnetwork/goat/x/relayer/types"
	"github.com/stretchr/testify/require"
)

type seedVoteMsg struct {
	proposer string
	vote     *types.Votes
}

func (m *seedVoteMsg) GetProposer() string   { return m.proposer }
func (m *seedVoteMsg) GetVote() *types.Votes { return m.vote }
func (m *seedVoteMsg) MethodName() string    { return "Seed/Demo" }
func (m *seedVoteMsg) VoteSigDoc() []byte    { return []byte("seed demo payload") }

var _ types.IVoteMsg = (*seedVoteMsg)(nil)

// C01: a voted proposal only takes effect with a genuine 2/3 quorum; every
// mark in the bitmap must denote a current voter whose key is verified.
func TestVerifReplay(t *testing.T) {
	k, ctx, addrCodec := keepertest.RelayerKeeper(t, nil)

	// one proposer + three voters => threshold ceil(2*4/3) = 3
	const members = 4
	sks := make([]*goatcrypto.PrivateKey, members)
	addrs := make([]string, members)
	for i := 0; i < members; i++ {
		sks[i] = goatcrypto.GenPrivKey()
		raw := make([]byte, 20)
		raw[0], raw[19] = 0xa0, byte(i+1)
		addr, err := addrCodec.BytesToString(raw)
		require.NoError(t, err)
		addrs[i] = addr
		require.NoError(t, k.Voters.Set(ctx, addr, types.Voter{
			Address: raw,
			VoteKey: new(goatcrypto.PublicKey).From(sks[i]).Compress(),
			Status:  types.VOTER_STATUS_ACTIVATED,
			Height:  1,
		}))
	}

	relayer := types.Relayer{
		Epoch:            7,
		Proposer:         addrs[0],
		Voters:           addrs[1:],
		LastElected:      time.Now().UTC(),
		ProposerAccepted: false,
	}
	require.NoError(t, k.Relayer.Set(ctx, relayer))
	require.Equal(t, 3, relayer.Threshold())

	msg := &seedVoteMsg{proposer: relayer.Proposer}
	sdkctx := sdktypes.UnwrapSDKContext(ctx)
	sigdoc := types.VoteSignDoc(msg.MethodName(), sdkctx.ChainID(), relayer.Proposer, 0, relayer.Epoch, msg.VoteSigDoc())

	sign := func(signers ...int) []byte {
		var sigs [][]byte
		for _, i := range signers {
			sigs = append(sigs, goatcrypto.Sign(sks[i], sigdoc))
		}
		agg, err := goatcrypto.AggregateSignatures(sigs)
		require.NoError(t, err)
		return agg
	}
	bmp := func(bits ...uint) []byte {
		var w uint64
		for _, b := range bits {
			w |= 1 << b
		}
		return binary.LittleEndian.AppendUint64(nil, w)
	}

	// Only the proposer and voter #0 signed: 2 of 4 members, below the
	// threshold of 3. The second mark sits at position 3 == len(voters), i.e.
	// one past the last voter, and must not stand in for a signature.
	msg.vote = &types.Votes{Sequence: 0, Epoch: relayer.Epoch, Voters: bmp(0, 3), Signature: sign(0, 1)}
	_, err := k.VerifyProposal(ctx, msg)
	require.Error(t, err, "2 of 4 signers with a padding mark beyond the voter list must not reach quorum")

	got, err := k.Relayer.Get(ctx)
	require.NoError(t, err)
	require.False(t, got.ProposerAccepted, "a proposal without quorum must not change state")

	// marks further out are rejected as well
	msg.vote = &types.Votes{Sequence: 0, Epoch: relayer.Epoch, Voters: bmp(0, 9), Signature: sign(0, 1)}
	_, err = k.VerifyProposal(ctx, msg)
	require.Error(t, err)

	// sanity: a genuine quorum (proposer + voters #0 and #2) is accepted
	msg.vote = &types.Votes{Sequence: 0, Epoch: relayer.Epoch, Voters: bmp(0, 2), Signature: sign(0, 1, 3)}
	seq, err := k.VerifyProposal(ctx, msg)
	require.NoError(t, err)
	require.EqualValues(t, 0, seq)
}
