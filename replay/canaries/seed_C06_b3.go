// Canary derived from the demonstration test of the seeded change /verif/seeded/C06_b3 (fails on code with that defect, passes on the original).
package keeper_test

import (
	"testing"

	keepertest "github.com/goatnetwork/goat/testutil/keeper"
	"github.com/goatnetwork/goat/testutil/mock"
	"github.com/goatnetwork/goat/x/bitcoin/keeper"
	"github.com/goatnetwork/goat/x/bitcoin/types"
	"github.com/stretchr/testify/require"
	"go.uber.org/mock/gomock"
)

// C06: a refunded (rejected) withdrawal is handed over to the execution layer
// exactly once. A cancellation approval that lists the same withdrawal id twice
// must not put two refund transactions for that withdrawal into the queue.
func TestVerifReplay(t *testing.T) {
	ctl := gomock.NewController(t)
	defer ctl.Finish()

	relayerKeeper := mock.NewMockRelayerKeeper(ctl)
	k, ctx, _ := keepertest.BitcoinKeeper(t, relayerKeeper)

	require.NoError(t, k.EthTxQueue.Set(ctx, types.EthTxQueue{}))

	const wid = uint64(7)
	require.NoError(t, k.Withdrawals.Set(ctx, wid, types.Withdrawal{
		Address:       "bcrt1qy728d54p6ftlpnwvfpjpkdne6sg3saq4qzezpx",
		RequestAmount: 1e3,
		MaxTxPrice:    5,
		Status:        types.WITHDRAWAL_STATUS_CANCELING,
	}))

	req := &types.MsgApproveCancellation{
		Proposer: "goat1xa56637tjn857jyg2plgvhdclzmr4crxzn5xus",
		Id:       []uint64{wid, wid}, // the same withdrawal listed twice
	}
	relayerKeeper.EXPECT().VerifyNonProposal(gomock.Any(), req).Return(nil, nil).AnyTimes()

	// run the message the way baseapp does: on a cache context which is
	// committed only if the message succeeds
	msgServer := keeper.NewMsgServerImpl(k)
	cacheCtx, write := ctx.CacheContext()
	if _, err := msgServer.ApproveCancellation(cacheCtx, req); err == nil {
		write()
	}

	// hand over everything that is queued and count the refunds of the withdrawal
	nonceBefore, err := k.EthTxNonce.Peek(ctx)
	require.NoError(t, err)

	queue, err := k.EthTxQueue.Get(ctx)
	require.NoError(t, err)

	refunds := 0
	for _, id := range queue.RejectedWithdrawals {
		if id == wid {
			refunds++
		}
	}
	require.LessOrEqual(t, refunds, 1, "withdrawal %d is queued for refund %d times", wid, refunds)

	txs, err := k.DequeueBitcoinModuleTx(ctx)
	require.NoError(t, err)
	require.LessOrEqual(t, len(txs), 1, "withdrawal %d is refunded by %d execution transactions", wid, len(txs))

	nonceAfter, err := k.EthTxNonce.Peek(ctx)
	require.NoError(t, err)
	require.EqualValues(t, len(txs), nonceAfter-nonceBefore)
}
