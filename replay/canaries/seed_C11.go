// Canary derived from the demonstration test of the seeded change /verif/seeded/C11 (fails on code with that defect, passes on the original).
package keeper_test

import (
	"math/big"
	"testing"
	"time"

	"cosmossdk.io/math"
	abci "github.com/cometbft/cometbft/abci/types"
	tmtypes "github.com/cometbft/cometbft/proto/tendermint/types"
	"github.com/cosmos/cosmos-sdk/crypto/keys/secp256k1"
	sdk "github.com/cosmos/cosmos-sdk/types"
	authtypes "github.com/cosmos/cosmos-sdk/x/auth/types"
	"github.com/ethereum/go-ethereum/common"
	"github.com/ethereum/go-ethereum/core/types/goattypes"
	ethcrypto "github.com/ethereum/go-ethereum/crypto"
	keepertest "github.com/goatnetwork/goat/testutil/keeper"
	"github.com/goatnetwork/goat/testutil/mock"
	"github.com/goatnetwork/goat/x/locking/keeper"
	"github.com/goatnetwork/goat/x/locking/types"
	"github.com/stretchr/testify/require"
	"go.uber.org/mock/gomock"
)

// seedLedger sums up, for one token, what the validators hold, what was
// slashed and what was released through unlocks (time queue + eth tx queue).
func seedLedger(t *testing.T, k keeper.Keeper, ctx sdk.Context, token common.Address) (held, slashed, released math.Int) {
	t.Helper()
	denom := types.TokenDenom(token)

	held, slashed, released = math.ZeroInt(), math.ZeroInt(), math.ZeroInt()

	require.NoError(t, k.Validators.Walk(ctx, nil, func(_ sdk.ConsAddress, v types.Validator) (bool, error) {
		amount := v.Locking.AmountOf(denom)
		require.False(t, amount.IsNegative())
		held = held.Add(amount)
		return false, nil
	}))

	require.NoError(t, k.Slashed.Walk(ctx, nil, func(key string, v math.Int) (bool, error) {
		require.False(t, v.IsNegative())
		if key == denom {
			slashed = slashed.Add(v)
		}
		return false, nil
	}))

	sum := func(list []*types.Unlock) {
		for _, u := range list {
			require.False(t, u.Amount.IsNegative())
			if common.BytesToAddress(u.Token) == token {
				released = released.Add(u.Amount)
			}
		}
	}
	require.NoError(t, k.UnlockQueue.Walk(ctx, nil, func(_ time.Time, v types.Unlocks) (bool, error) {
		sum(v.Unlocks)
		return false, nil
	}))
	queue, err := k.EthTxQueue.Get(ctx)
	require.NoError(t, err)
	sum(queue.Unlocks)
	return
}

// A validator gets slashed for downtime, waits for the jail to expire and
// then tops its locking up in two steps; the first step alone is not enough
// to reach the threshold again. Every locked unit has to stay accounted for:
// locked == held + slashed + released.
func TestVerifReplay(t *testing.T) {
	ctl := gomock.NewController(t)
	defer ctl.Finish()
	account := mock.NewMockAccountKeeper(ctl)

	k, ctx := keepertest.LockingKeeper(t, account)

	now := time.Now().UTC()
	ctx = ctx.WithBlockTime(now).WithBlockHeight(1)

	param := types.DefaultParams()
	param.SignedBlocksWindow = 3
	param.MaxMissedPerWindow = 1
	require.NoError(t, k.Params.Set(ctx, param))
	require.NoError(t, k.EthTxQueue.Set(ctx, types.EthTxQueue{}))

	threshold := math.NewIntFromUint64(1e18)
	nativeDenom := types.TokenDenom(common.Address{})
	require.NoError(t, k.Tokens.Set(ctx, nativeDenom, types.Token{Weight: 1e4, Threshold: threshold}))
	require.NoError(t, k.Threshold.Set(ctx, types.Threshold{List: sdk.NewCoins(sdk.NewCoin(nativeDenom, threshold))}))

	// create the validator
	compressed := common.Hex2Bytes("03ac22905ded6095255f498cd5cb217b6ebf0d82c7df2c89bce6e9089dd51e6f50")
	pubkey, err := ethcrypto.DecompressPubkey(compressed)
	require.NoError(t, err)
	uncompressed := ethcrypto.FromECDSAPub(pubkey)
	acc, err := authtypes.NewBaseAccountWithPubKey(&secp256k1.PubKey{Key: compressed})
	require.NoError(t, err)

	account.EXPECT().HasAccount(gomock.Any(), acc.GetAddress()).Return(false)
	account.EXPECT().NewAccountWithAddress(gomock.Any(), acc.GetAddress()).Return(acc)
	account.EXPECT().SetAccount(gomock.Any(), acc)

	valAddr := common.BytesToAddress(acc.GetAddress())
	consAddr := sdk.ConsAddress(valAddr.Bytes())
	require.NoError(t, k.Create(ctx, []*goattypes.CreateRequest{{Validator: valAddr, Pubkey: [64]byte(uncompressed[1:])}}))

	locked := math.ZeroInt()
	lock := func(ctx sdk.Context, amount *big.Int) {
		require.NoError(t, k.Lock(ctx, []*goattypes.LockRequest{{Validator: valAddr, Token: common.Address{}, Amount: amount}}))
		locked = locked.Add(math.NewIntFromBigInt(amount))
	}
	conserved := func(ctx sdk.Context, step string) {
		held, slashed, released := seedLedger(t, k, ctx, common.Address{})
		require.Equal(t, locked.String(), held.Add(slashed).Add(released).String(),
			"%s: locked=%s held=%s slashed=%s released=%s", step, locked, held, slashed, released)
	}

	// lock exactly the threshold and join the validator set
	lock(ctx, big.NewInt(1e18))
	updates, err := k.EndBlocker(ctx)
	require.NoError(t, err)
	require.Len(t, updates, 1)
	conserved(ctx, "joined")

	// miss a block: downtime slashing and jail
	ctx = ctx.WithBlockHeight(2).WithVoteInfos([]abci.VoteInfo{{
		Validator:   abci.Validator{Address: consAddr, Power: updates[0].Power},
		BlockIdFlag: tmtypes.BlockIDFlagAbsent,
	}})
	require.NoError(t, k.HandleVoteInfos(ctx))
	ctx = ctx.WithVoteInfos(nil)
	_, err = k.EndBlocker(ctx)
	require.NoError(t, err)

	validator, err := k.Validators.Get(ctx, consAddr)
	require.NoError(t, err)
	require.Equal(t, types.Downgrade, validator.Status)
	conserved(ctx, "slashed")

	// the jail is over, the first top-up is still below the threshold
	ctx = ctx.WithBlockHeight(3).WithBlockTime(now.Add(param.DowntimeJailDuration + time.Minute))
	lock(ctx, big.NewInt(1e16))
	validator, err = k.Validators.Get(ctx, consAddr)
	require.NoError(t, err)
	require.Equal(t, types.Downgrade, validator.Status)
	conserved(ctx, "first top-up")

	// the second top-up reaches the threshold again
	ctx = ctx.WithBlockHeight(4)
	lock(ctx, big.NewInt(1e16))
	conserved(ctx, "second top-up")

	// leave: ask for everything that was ever locked
	ctx = ctx.WithBlockHeight(5)
	require.NoError(t, k.Unlock(ctx, []*goattypes.UnlockRequest{{
		Id: 1, Validator: valAddr, Recipient: valAddr, Token: common.Address{}, Amount: locked.BigInt(),
	}}))
	conserved(ctx, "exit")

	ctx = ctx.WithBlockHeight(6).WithBlockTime(ctx.BlockTime().Add(param.ExitingDuration))
	require.NoError(t, k.DequeueMatureUnlocks(ctx))
	conserved(ctx, "matured")

	held, slashed, released := seedLedger(t, k, ctx, common.Address{})
	require.True(t, held.IsZero(), "held %s", held)
	require.Equal(t, "20000000000000000", slashed.String())
	require.Equal(t, "1000000000000000000", released.String())
}
