// Canary derived from the demonstration test of the seeded change /verif/seeded/C19 (fails on code with that defect, passes on the original).
package keeper_test

import (
	"math/big"
	"testing"

	"github.com/ethereum/go-ethereum/common"
	ethtypes "github.com/ethereum/go-ethereum/core/types"
	"github.com/ethereum/go-ethereum/core/types/goattypes"
	"github.com/ethereum/go-ethereum/params"
	keepertest "github.com/goatnetwork/goat/testutil/keeper"
	"github.com/goatnetwork/goat/testutil/mock"
	"github.com/stretchr/testify/require"
	"go.uber.org/mock/gomock"
)

// TestSeedDemo: C19 - a malformed MsgNewEthBlock payload must be rejected with
// an error, it must never panic. VerifyDequeue runs inside an errgroup
// goroutine of the ProcessProposal handler (verifyEthBlockProposal), where no
// recover exists, so a panic there kills the node process.
//
// State: the bitcoin module and the locking module both have one pending
// system transaction in the same block. The proposer sends a payload whose
// transaction list is truncated after the bridge transaction(s).
func TestVerifReplay(t *testing.T) {
	ctl := gomock.NewController(t)
	defer ctl.Finish()

	bitcoinKeeper := mock.NewMockBitcoinKeeper(ctl)
	lockingKeeper := mock.NewMockLockingKeeper(ctl)
	k, ctx, _ := keepertest.GoatKeeper(t,
		bitcoinKeeper, lockingKeeper,
		mock.NewMockRelayerKeeper(ctl), mock.NewMockAccountKeeper(ctl), mock.NewMockEngineClient(ctl))

	btcTx := ethtypes.NewTx(ethtypes.NewGoatTx(
		goattypes.BirdgeModule,
		goattypes.BridgeDepoitAction,
		0,
		&goattypes.DepositTx{
			Txid:   common.HexToHash("0x344fb824c793fc370a38577eea12aba8842cb0516cf52099911a36c0c36f11ee"),
			TxOut:  0,
			Target: common.HexToAddress("0xe896f4afff6c2424819aa493b1724fc11851dc54"),
			Amount: big.NewInt(10),
			Tax:    new(big.Int),
		},
	))
	lockingTx := ethtypes.NewTx(ethtypes.NewGoatTx(
		goattypes.LockingModule,
		goattypes.LockingDistributeRewardAction,
		0,
		&goattypes.DistributeRewardTx{
			Id:        0,
			Recipient: common.HexToAddress("0x8743c8f569103715dce9d16394185a8c8dc721ec"),
			Goat:      big.NewInt(10),
			GasReward: big.NewInt(1),
		},
	))

	rawBtcTx, err := btcTx.MarshalBinary()
	require.NoError(t, err)
	rawLockingTx, err := lockingTx.MarshalBinary()
	require.NoError(t, err)

	bitcoinKeeper.EXPECT().DequeueBitcoinModuleTx(gomock.Any()).
		Return([]*ethtypes.Transaction{btcTx}, nil).AnyTimes()
	lockingKeeper.EXPECT().DequeueLockingModuleTx(gomock.Any()).
		Return([]*ethtypes.Transaction{lockingTx}, nil).AnyTimes()

	extra := func(n byte) []byte {
		raw := make([]byte, params.GoatHeaderExtraLengthV0)
		raw[0] = n
		return raw
	}

	// sanity: the honest payload is accepted
	require.NoError(t, k.VerifyDequeue(ctx, extra(2), [][]byte{rawBtcTx, rawLockingTx}))

	// the malformed payloads: the locking transaction is cut off
	for _, tc := range []struct {
		name string
		root []byte
		txs  [][]byte
	}{
		{"truncated, count 1", extra(1), [][]byte{rawBtcTx}},
		{"truncated, count 0", extra(0), [][]byte{rawBtcTx}},
	} {
		var verr error
		require.NotPanics(t, func() { verr = k.VerifyDequeue(ctx, tc.root, tc.txs) },
			"%s: malformed payload must be rejected with an error, not a panic", tc.name)
		require.Error(t, verr, tc.name)
	}
}
