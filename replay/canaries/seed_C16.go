// Canary derived from the demonstration test of the seeded change /verif/seeded/C16 (fails on code with that defect, passes on the original).
package keeper_test

import (
	"testing"
	"time"

	"github.com/ethereum/go-ethereum/common"
	"github.com/ethereum/go-ethereum/core/types/goattypes"
	keepertest "github.com/goatnetwork/goat/testutil/keeper"
	"github.com/goatnetwork/goat/testutil/mock"
	"github.com/goatnetwork/goat/x/relayer/types"
	"github.com/stretchr/testify/assert"
	"github.com/stretchr/testify/require"
	"go.uber.org/mock/gomock"
)

// C16: removals that would empty the relayer group are ignored rather than
// applied, and the end-of-block logic never fails for any history of add/remove
// requests.
//
// Sequence: a two member group {proposer P, voter V}. The execution layer first
// asks to remove the proposer P, and in a later block - still before the next
// election - asks to remove V. The second removal would empty the group so it
// has to be disregarded, the election must succeed and leave V as the only
// member and proposer.
func TestVerifReplay(t *testing.T) {
	ctl := gomock.NewController(t)
	defer ctl.Finish()

	k, ctx, codec := keepertest.RelayerKeeper(t, mock.NewMockAccountKeeper(ctl))

	rawP := common.HexToAddress("6c76e7d2bf7e08fa16389dcd5d098f2ff18f9dca")
	rawV := common.HexToAddress("1f7a29e5f1b99c6ea2bc6b4ec90a7654eaa33598")
	addrP, err := codec.BytesToString(rawP.Bytes())
	require.NoError(t, err)
	addrV, err := codec.BytesToString(rawV.Bytes())
	require.NoError(t, err)

	for _, raw := range []common.Address{rawP, rawV} {
		addr, err := codec.BytesToString(raw.Bytes())
		require.NoError(t, err)
		require.NoError(t, k.Voters.Set(ctx, addr, types.Voter{
			Address: raw.Bytes(),
			VoteKey: make([]byte, 96),
			Status:  types.VOTER_STATUS_ACTIVATED,
			Height:  100,
		}))
	}

	start := ctx.BlockTime()
	require.NoError(t, k.Params.Set(ctx, types.Params{
		ElectingPeriod:        10 * time.Minute,
		AcceptProposerTimeout: time.Minute,
	}))
	require.NoError(t, k.Relayer.Set(ctx, types.Relayer{
		Proposer:         addrP,
		Voters:           []string{addrV},
		LastElected:      start,
		ProposerAccepted: true,
	}))

	// block 1: remove the proposer
	ctx = ctx.WithBlockHeight(1).WithBlockTime(start.Add(time.Second))
	require.NoError(t, k.ProcessRelayerRequest(ctx, goattypes.RelayerRequests{
		Removes: []*goattypes.RemoveVoterRequest{{Voter: rawP}},
	}))
	require.NoError(t, k.EndBlocker(ctx))

	queue, err := k.Queue.Get(ctx)
	require.NoError(t, err)
	require.Equal(t, []string{addrP}, queue.OffBoarding)

	// block 2: remove the last remaining member, it must be disregarded
	ctx = ctx.WithBlockHeight(2).WithBlockTime(start.Add(2 * time.Second))
	require.NoError(t, k.ProcessRelayerRequest(ctx, goattypes.RelayerRequests{
		Removes: []*goattypes.RemoveVoterRequest{{Voter: rawV}},
	}))
	require.NoError(t, k.EndBlocker(ctx))

	queue, err = k.Queue.Get(ctx)
	require.NoError(t, err)
	assert.Equal(t, []string{addrP}, queue.OffBoarding, "removal emptying the group must be ignored")
	voterV, err := k.Voters.Get(ctx, addrV)
	require.NoError(t, err)
	assert.Equal(t, types.VOTER_STATUS_ACTIVATED, voterV.Status)

	// block 3: the electing period has elapsed, the election must not fail
	ctx = ctx.WithBlockHeight(3).WithBlockTime(start.Add(10 * time.Minute))
	require.NoError(t, k.EndBlocker(ctx), "end block must never fail")

	relayer, err := k.Relayer.Get(ctx)
	require.NoError(t, err)
	require.EqualValues(t, 1, relayer.Epoch)
	require.Equal(t, addrV, relayer.Proposer)
	require.Empty(t, relayer.Voters)
	has, err := k.Voters.Has(ctx, relayer.Proposer)
	require.NoError(t, err)
	require.True(t, has, "proposer must be a current member")
}
