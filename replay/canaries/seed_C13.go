// Canary derived from the demonstration test of the seeded change /verif/seeded/C13 (fails on code with that defect, passes on the original).
package keeper_test

import (
	"bytes"
	"math/big"
	"sort"
	"testing"
	"time"

	"cosmossdk.io/collections"
	"cosmossdk.io/math"
	abci "github.com/cometbft/cometbft/abci/types"
	"github.com/cosmos/cosmos-sdk/baseapp"
	sdk "github.com/cosmos/cosmos-sdk/types"
	"github.com/ethereum/go-ethereum/common"
	"github.com/ethereum/go-ethereum/core/types/goattypes"
	keepertest "github.com/goatnetwork/goat/testutil/keeper"
	"github.com/goatnetwork/goat/x/locking/keeper"
	"github.com/goatnetwork/goat/x/locking/types"
	"github.com/stretchr/testify/require"
)

// TestSeedDemo drives the locking module through a short history:
//
//	block 1: B and C lock and join the (max 2) validator set
//	block 2: A locks more than B and takes B's seat, B is pending again
//	block 3: double-sign evidence against B (it signed while it was in the set)
//	block 4: A exits
//
// After every block the accumulated validator updates must be acceptable to
// the consensus engine and equal to the module's own record, which must be
// the top-K of the eligible validators, and the end blocker must not fail.
func TestVerifReplay(t *testing.T) {
	k, ctx := keepertest.LockingKeeper(t, nil)
	now := time.Now().UTC()
	ctx = ctx.WithBlockTime(now).WithBlockHeight(1)

	native := types.TokenDenom(common.Address{})
	require.NoError(t, k.Tokens.Set(ctx, native, types.Token{Weight: 1e4, Threshold: math.NewIntFromUint64(1e18)}))
	require.NoError(t, k.Threshold.Set(ctx, types.Threshold{List: sdk.NewCoins(sdk.NewCoin(native, math.NewIntFromUint64(1e18)))}))
	param := types.DefaultParams()
	param.MaxValidators = 2
	require.NoError(t, k.Params.Set(ctx, param))

	pubkeys := [][]byte{
		common.Hex2Bytes("0242d59fb617d2cb150966bf42c3c7e943f7194f82e41b68a12124d6c2d2f69ae2"), // A
		common.Hex2Bytes("03a43c6d25cd52c8557e89a047f627d39315f1940f147ff8f191f2d058f33c1211"), // B
		common.Hex2Bytes("02ae8db8dd5cc564b42d86ed353242ad0e0cfd1d95b65a172e445e3554c9bde9ae"), // C
	}
	addrs := []sdk.ConsAddress{
		common.Hex2Bytes("c7bde79e58bdcfc8f058749b48feb2558c9c4adb"), // A
		common.Hex2Bytes("c387bcb76c985d4873f04698eeec98fc5e3d4a7d"), // B
		common.Hex2Bytes("044d1624630b729ab072fb3338b762dbd34e41ab"), // C
	}
	A, B, C := addrs[0], addrs[1], addrs[2]

	// the state left by the create requests
	for i, addr := range addrs {
		require.NoError(t, k.Validators.Set(ctx, addr, types.Validator{
			Pubkey: pubkeys[i], Reward: math.ZeroInt(), GasReward: math.ZeroInt(), Status: types.Pending,
		}))
	}

	comet := map[string]int64{} // the validator set as the consensus engine sees it
	endBlock := func(ctx sdk.Context, step string) {
		t.Helper()
		updates, err := k.EndBlocker(ctx)
		require.NoError(t, err, "%s: end blocker failed", step)
		applyUpdates(t, comet, updates, step)
		checkValidatorSet(t, k, ctx, comet, step)
	}

	lock := func(ctx sdk.Context, addr sdk.ConsAddress, amount uint64) {
		t.Helper()
		require.NoError(t, k.Lock(ctx, []*goattypes.LockRequest{
			{Validator: common.BytesToAddress(addr), Token: common.Address{}, Amount: new(big.Int).SetUint64(amount)},
		}))
	}

	// block 1: B and C join
	lock(ctx, B, 1e18)
	lock(ctx, C, 3e18)
	endBlock(ctx, "block 1")
	require.Len(t, comet, 2)

	// block 2: A takes B's seat
	ctx = ctx.WithBlockHeight(2).WithBlockTime(now.Add(time.Second))
	lock(ctx, A, 2e18)
	endBlock(ctx, "block 2")
	require.Contains(t, comet, string(pubkeys[0]))
	require.NotContains(t, comet, string(pubkeys[1]))

	// block 3: the evidence of a double sign of B in block 1 gets in
	ctx = ctx.WithBlockHeight(3).WithBlockTime(now.Add(2 * time.Second))
	evctx := ctx.WithCometInfo(baseapp.NewBlockInfo([]abci.Misbehavior{{
		Type:      abci.MisbehaviorType_DUPLICATE_VOTE,
		Validator: abci.Validator{Address: B, Power: 10000},
		Height:    1,
		Time:      now,
	}}, nil, C, abci.CommitInfo{}))
	require.NoError(t, k.HandleEvidences(evctx))
	b, err := k.Validators.Get(ctx, B)
	require.NoError(t, err)
	require.Equal(t, types.Tombstoned, b.Status)
	endBlock(ctx, "block 3")

	// block 4: A exits
	ctx = ctx.WithBlockHeight(4).WithBlockTime(now.Add(3 * time.Second))
	require.NoError(t, k.Unlock(ctx, []*goattypes.UnlockRequest{
		{Id: 0, Validator: common.BytesToAddress(A), Recipient: common.BytesToAddress(A), Token: common.Address{}, Amount: new(big.Int).SetUint64(2e18)},
	}))
	endBlock(ctx, "block 4")
	require.Len(t, comet, 1)
	require.Contains(t, comet, string(pubkeys[2]))
}

// applyUpdates applies the updates the way cometbft does and refuses what cometbft refuses
func applyUpdates(t *testing.T, set map[string]int64, updates []abci.ValidatorUpdate, step string) {
	t.Helper()
	seen := map[string]bool{}
	for _, u := range updates {
		key := string(u.PubKey.GetSecp256K1())
		require.False(t, seen[key], "%s: duplicate update", step)
		seen[key] = true
		require.GreaterOrEqual(t, u.Power, int64(0), "%s: negative power", step)
		if u.Power == 0 {
			_, ok := set[key]
			require.True(t, ok, "%s: removal of a non-member", step)
			delete(set, key)
			continue
		}
		set[key] = u.Power
	}
	require.NotEmpty(t, set, "%s: empty validator set", step)
}

// checkValidatorSet compares the accumulated updates with the module's record
// and checks the record is the top-K of the eligible validators
func checkValidatorSet(t *testing.T, k keeper.Keeper, ctx sdk.Context, comet map[string]int64, step string) {
	t.Helper()
	param, err := k.Params.Get(ctx)
	require.NoError(t, err)

	type cand struct {
		addr  sdk.ConsAddress
		power uint64
		key   string
	}
	var eligible []cand
	record := map[string]int64{}

	valIter, err := k.Validators.Iterate(ctx, nil)
	require.NoError(t, err)
	kvs, err := valIter.KeyValues()
	require.NoError(t, err)
	for _, kv := range kvs {
		addr, v := kv.Key, kv.Value
		inSet, err := k.ValidatorSet.Has(ctx, addr)
		require.NoError(t, err)
		require.Equal(t, v.Status == types.Active, inSet, "%s: status of %x against the set", step, addr.Bytes())
		if inSet {
			power, err := k.ValidatorSet.Get(ctx, addr)
			require.NoError(t, err)
			require.Equal(t, v.Power, power, "%s: power of %x", step, addr.Bytes())
			require.NotZero(t, power, "%s: zero power member %x", step, addr.Bytes())
			record[string(v.Pubkey)] = int64(power)
		}
		if (v.Status == types.Active || v.Status == types.Pending) && v.Power > 0 {
			has, err := k.PowerRanking.Has(ctx, collections.Join(v.Power, addr))
			require.NoError(t, err)
			require.True(t, has, "%s: eligible validator %x is not ranked", step, addr.Bytes())
			eligible = append(eligible, cand{addr: addr, power: v.Power, key: string(v.Pubkey)})
		}
	}
	require.Equal(t, record, comet, "%s: accumulated updates differ from the record", step)
	require.LessOrEqual(t, int64(len(record)), param.MaxValidators, step)

	sort.Slice(eligible, func(i, j int) bool {
		if eligible[i].power != eligible[j].power {
			return eligible[i].power > eligible[j].power
		}
		return bytes.Compare(eligible[i].addr, eligible[j].addr) > 0
	})
	if int64(len(eligible)) > param.MaxValidators {
		eligible = eligible[:param.MaxValidators]
	}
	require.Len(t, record, len(eligible), "%s: the set is not the top-K", step)
	for _, c := range eligible {
		require.Contains(t, record, c.key, "%s: %x should be a member", step, c.addr.Bytes())
	}
}
