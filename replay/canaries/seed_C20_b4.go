// Canary derived from the demonstration test of the seeded change /verif/seeded/C20_b4 (fails on code with that defect, passes on the original).
package keeper_test

import (
	"bytes"
	"testing"

	"github.com/btcsuite/btcd/chaincfg/chainhash"
	"github.com/btcsuite/btcd/txscript"
	"github.com/btcsuite/btcd/wire"
	"github.com/ethereum/go-ethereum/common"
	"github.com/ethereum/go-ethereum/core/types/goattypes"
	"github.com/stretchr/testify/require"
	"go.uber.org/mock/gomock"

	goatcrypto "github.com/goatnetwork/goat/pkg/crypto"
	keepertest "github.com/goatnetwork/goat/testutil/keeper"
	"github.com/goatnetwork/goat/testutil/mock"
	"github.com/goatnetwork/goat/x/bitcoin/types"
	relayer "github.com/goatnetwork/goat/x/relayer/types"
)

// TestSeedDemo: C20. Whatever in-range tax rate the execution layer sets,
// a deposit's tax must stay below its value, the credited amount must stay
// positive and amount+tax must equal the deposited value.
//
// Sequence: the execution layer raises the tax rate above 50% without an
// absolute cap (Max == 0 means "no limit"), then a deposit whose value is just
// above one MaxTaxBP unit (10001 sat) is verified.
func TestVerifReplay(t *testing.T) {
	ctl := gomock.NewController(t)
	defer ctl.Finish()
	relayerKeeper := mock.NewMockRelayerKeeper(ctl)
	k, ctx, _ := keepertest.BitcoinKeeper(t, relayerKeeper)

	pubkey := relayer.PublicKey{Key: &relayer.PublicKey_Secp256K1{
		Secp256K1: common.Hex2Bytes("0383560def84048edefe637d0119a4428dd12a42765a118b2bf77984057633c50e"),
	}}
	evmAddress := common.HexToAddress("0xbC122aEc3EdD80433dfE3c708b2E549B5A7Ab96E")

	require.NoError(t, k.Params.Set(ctx, types.DefaultParams()))

	// parameter history coming from the execution layer; every accepted
	// value is inside the documented bounds, the out-of-range one is ignored
	require.NoError(t, k.ProcessBridgeRequest(ctx, goattypes.BridgeRequests{
		DepositTax: []*goattypes.DepositTaxRequest{
			{Rate: 6000, Max: 0},
			{Rate: types.MaxTaxBP, Max: 0}, // 100%: must be ignored
		},
		MinDeposit: []*goattypes.MinDepositRequest{{Satoshi: 5000}},
	}))
	param, err := k.Params.Get(ctx)
	require.NoError(t, err)
	require.EqualValues(t, 6000, param.DepositTaxRate)
	require.Less(t, param.DepositTaxRate, uint64(types.MaxTaxBP))
	require.EqualValues(t, 5000, param.MinDepositAmount)

	for _, value := range []int64{10001, 10002, 19999, 20000, 20001, 1e8 + 1} {
		// a version 0 deposit paying `value` satoshi to the relayer p2wsh script
		script, err := txscript.NewScriptBuilder().AddData(evmAddress.Bytes()).AddOp(txscript.OP_DROP).
			AddData(pubkey.GetSecp256K1()).AddOp(txscript.OP_CHECKSIG).Script()
		require.NoError(t, err)
		pkScript := append([]byte{txscript.OP_0, txscript.OP_DATA_32}, goatcrypto.SHA256Sum(script)...)

		tx := wire.NewMsgTx(2)
		tx.AddTxIn(wire.NewTxIn(wire.NewOutPoint(&chainhash.Hash{0x11, byte(value)}, 0), nil, nil))
		tx.AddTxOut(wire.NewTxOut(value, pkScript))
		var raw bytes.Buffer
		require.NoError(t, tx.SerializeNoWitness(&raw))
		txid := goatcrypto.DoubleSHA256Sum(raw.Bytes())

		// two leaf merkle tree: [sibling, txid]
		sibling := bytes.Repeat([]byte{0x42}, 32)
		root := goatcrypto.DoubleSHA256Sum(append(append([]byte{}, sibling...), txid...))
		header := make([]byte, types.RawBtcHeaderSize)
		copy(header[36:68], root)

		const height = 102
		require.NoError(t, k.BlockHashes.Set(ctx, height, goatcrypto.DoubleSHA256Sum(header)))
		require.NoError(t, k.BlockTip.Set(ctx, height))

		relayerKeeper.EXPECT().HasPubkey(ctx, relayer.EncodePublicKey(&pubkey)).Return(true, nil)
		res, err := k.VerifyDeposit(ctx, map[uint64][]byte{height: header}, &types.Deposit{
			Version:           0,
			BlockNumber:       height,
			TxIndex:           1,
			NoWitnessTx:       raw.Bytes(),
			OutputIndex:       0,
			IntermediateProof: sibling,
			EvmAddress:        evmAddress.Bytes(),
			RelayerPubkey:     &pubkey,
		})
		require.NoError(t, err)

		require.Lessf(t, res.Tax, uint64(value), "tax reached the deposit value %d", value)
		require.NotZerof(t, res.Amount, "credited amount is zero for value %d", value)
		require.LessOrEqualf(t, res.Amount, uint64(value), "credited amount exceeds the deposit value %d", value)
		require.EqualValuesf(t, uint64(value), res.Amount+res.Tax, "amount+tax != value %d", value)
	}
}
