// Canary derived from the demonstration test of the seeded change /verif/seeded/C10_b4 (fails on code with that defect, passes on the original).
package app

import (
	"testing"

	"cosmossdk.io/log"
	"cosmossdk.io/x/tx/signing"
	cmtproto "github.com/cometbft/cometbft/proto/tendermint/types"
	"github.com/cosmos/cosmos-sdk/codec"
	"github.com/cosmos/cosmos-sdk/codec/address"
	codectypes "github.com/cosmos/cosmos-sdk/codec/types"
	sdk "github.com/cosmos/cosmos-sdk/types"
	authtx "github.com/cosmos/cosmos-sdk/x/auth/tx"
	"github.com/cosmos/gogoproto/proto"
	"github.com/stretchr/testify/require"
	"go.uber.org/mock/gomock"

	"github.com/goatnetwork/goat/testutil/mock"
	goattypes "github.com/goatnetwork/goat/x/goat/types"
)

// TestSeedDemo checks the timeout-height clause of the execution block message:
// MsgNewEthBlock is admissible inside a proposed or finalised block only when
// the tx timeout height is exactly the height of that block, and never in the mempool.
func TestVerifReplay(t *testing.T) {
	const height = 10

	reg, err := codectypes.NewInterfaceRegistryWithOptions(codectypes.InterfaceRegistryOptions{
		ProtoFiles: proto.HybridResolver,
		SigningOptions: signing.Options{
			AddressCodec:          address.NewBech32Codec(AccountAddressPrefix),
			ValidatorAddressCodec: address.NewBech32Codec(AccountAddressPrefix + "valoper"),
		},
	})
	require.NoError(t, err)
	goattypes.RegisterInterfaces(reg)
	txConfig := authtx.NewTxConfig(codec.NewProtoCodec(reg), authtx.DefaultSignModes)

	validator := sdk.AccAddress([]byte("validator-address-20")[:20])
	relayerProposer := sdk.AccAddress([]byte("relayer-proposer-020")[:20])

	ctrl := gomock.NewController(t)
	relayerKeeper := mock.NewMockRelayerKeeper(ctrl)
	relayerKeeper.EXPECT().GetCurrentProposer(gomock.Any()).Return(relayerProposer, nil).AnyTimes()
	guard := GoatGuardHandler{relayerKeeper}

	newBlockTx := func(timeout uint64) sdk.Tx {
		builder := txConfig.NewTxBuilder()
		builder.SetGasLimit(1e8)
		builder.SetTimeoutHeight(timeout)
		require.NoError(t, builder.SetMsgs(&goattypes.MsgNewEthBlock{
			Proposer: validator.String(),
			Payload:  &goattypes.ExecutionPayload{BlockNumber: height},
		}))
		return builder.GetTx()
	}

	run := func(mode sdk.ExecMode, timeout uint64) (bool, error) {
		ctx := sdk.NewContext(nil, cmtproto.Header{Height: height}, false, log.NewNopLogger()).WithExecMode(mode)
		admitted := false
		_, err := guard.AnteHandle(ctx, newBlockTx(timeout), false,
			func(ctx sdk.Context, tx sdk.Tx, simulate bool) (sdk.Context, error) {
				admitted = true
				return ctx, nil
			})
		return admitted, err
	}

	for _, mode := range []sdk.ExecMode{sdk.ExecModeProcessProposal, sdk.ExecModeFinalize} {
		// the only admissible timeout height is the block height itself
		admitted, err := run(mode, height)
		require.NoError(t, err, "mode %d", mode)
		require.True(t, admitted, "mode %d", mode)

		for _, timeout := range []uint64{0, 1, height - 1, height + 1, height + 100} {
			admitted, err := run(mode, timeout)
			require.Error(t, err, "mode %d: MsgNewEthBlock with timeout height %d admitted in block %d", mode, timeout, height)
			require.False(t, admitted, "mode %d: MsgNewEthBlock with timeout height %d admitted in block %d", mode, timeout, height)
		}
	}

	// never in the mempool, whatever the timeout height is
	for _, mode := range []sdk.ExecMode{sdk.ExecModeCheck, sdk.ExecModeReCheck, sdk.ExecModePrepareProposal} {
		for _, timeout := range []uint64{0, height, height + 1} {
			admitted, err := run(mode, timeout)
			require.Error(t, err, "mode %d timeout %d", mode, timeout)
			require.False(t, admitted, "mode %d timeout %d", mode, timeout)
		}
	}
}
