// Canary derived from the demonstration test of the seeded change /verif/seeded/C09 (fails on code with that defect, passes on the original).
package keeper_test

import (
	"errors"
	"testing"

	"cosmossdk.io/math"
	"github.com/ethereum/go-ethereum/beacon/engine"
	"github.com/ethereum/go-ethereum/common"
	keepertest "github.com/goatnetwork/goat/testutil/keeper"
	"github.com/goatnetwork/goat/testutil/mock"
	"github.com/goatnetwork/goat/x/goat/types"
	"github.com/stretchr/testify/require"
	"go.uber.org/mock/gomock"
)

// TestSeedDemo checks the end-of-block half of C09: the engine is told exactly
// the recorded head (parent as safe and finalised) and ANY engine fault at ANY
// of the two finalisation calls (error or INVALID) makes Finalized fail, so the
// consensus block is not committed.
func TestVerifReplay(t *testing.T) {
	head := types.ExecutionPayload{
		ParentHash:    common.HexToHash("0x01").Bytes(),
		FeeRecipient:  common.HexToAddress("0x02").Bytes(),
		StateRoot:     common.HexToHash("0x03").Bytes(),
		ReceiptsRoot:  common.HexToHash("0x04").Bytes(),
		LogsBloom:     make([]byte, 256),
		PrevRandao:    common.HexToHash("0x05").Bytes(),
		BlockNumber:   7,
		GasLimit:      30_000_000,
		Timestamp:     1_700_000_000,
		ExtraData:     []byte{0},
		BaseFeePerGas: math.NewInt(7),
		BlockHash:     common.HexToHash("0x06").Bytes(),
		BeaconRoot:    common.HexToHash("0x07").Bytes(),
		Requests:      [][]byte{{0x1}},
	}
	wantState := &engine.ForkchoiceStateV1{
		HeadBlockHash:      common.BytesToHash(head.BlockHash),
		SafeBlockHash:      common.BytesToHash(head.ParentHash),
		FinalizedBlockHash: common.BytesToHash(head.ParentHash),
	}

	valid := func() *engine.PayloadStatusV1 { return &engine.PayloadStatusV1{Status: engine.VALID} }
	verr := "links to previously rejected block"

	type answer struct {
		status *engine.PayloadStatusV1
		err    error
	}
	cases := []struct {
		name       string
		newPayload answer
		forkchoice *answer // nil: must not be reached
		wantErr    bool
	}{
		{"fault free", answer{valid(), nil}, &answer{valid(), nil}, false},
		{"newPayload SYNCING then forkchoice SYNCING", answer{&engine.PayloadStatusV1{Status: engine.SYNCING}, nil}, &answer{&engine.PayloadStatusV1{Status: engine.SYNCING}, nil}, false},
		{"newPayload error", answer{nil, errors.New("boom")}, nil, true},
		{"newPayload INVALID", answer{&engine.PayloadStatusV1{Status: engine.INVALID}, nil}, nil, true},
		{"forkchoice error", answer{valid(), nil}, &answer{nil, errors.New("boom")}, true},
		{"forkchoice INVALID after newPayload VALID", answer{valid(), nil}, &answer{&engine.PayloadStatusV1{Status: engine.INVALID}, nil}, true},
		{"forkchoice INVALID (with reason) after newPayload ACCEPTED", answer{&engine.PayloadStatusV1{Status: engine.ACCEPTED}, nil}, &answer{&engine.PayloadStatusV1{Status: engine.INVALID, ValidationError: &verr}, nil}, true},
	}

	for _, tc := range cases {
		t.Run(tc.name, func(t *testing.T) {
			ctl := gomock.NewController(t)
			defer ctl.Finish()
			ethClient := mock.NewMockEngineClient(ctl)
			k, ctx, _ := keepertest.GoatKeeper(t,
				mock.NewMockBitcoinKeeper(ctl), mock.NewMockLockingKeeper(ctl),
				mock.NewMockRelayerKeeper(ctl), mock.NewMockAccountKeeper(ctl), ethClient)
			require.NoError(t, k.Block.Set(ctx, head))
			require.NoError(t, k.BeaconRoot.Set(ctx, common.HexToHash("0x08").Bytes()))

			ethClient.EXPECT().NewPayloadV4(gomock.Any(), types.PayloadToExecutableData(&head),
				[]common.Hash{}, common.BytesToHash(head.BeaconRoot), head.Requests).
				Return(tc.newPayload.status, tc.newPayload.err).Times(1)
			if tc.forkchoice != nil {
				res := engine.ForkChoiceResponse{}
				if tc.forkchoice.status != nil {
					res.PayloadStatus = *tc.forkchoice.status
				}
				ethClient.EXPECT().ForkchoiceUpdatedV3(gomock.Any(), wantState, nil).
					Return(res, tc.forkchoice.err).Times(1)
			}

			err := k.Finalized(ctx)
			if tc.wantErr {
				require.Error(t, err, "engine fault while finalising must fail the block so that nothing is committed")
			} else {
				require.NoError(t, err)
			}

			// the recorded head is never touched by the end-of-block notification
			got, gerr := k.Block.Get(ctx)
			require.NoError(t, gerr)
			require.Equal(t, head, got)
		})
	}
}
