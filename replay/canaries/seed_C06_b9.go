// Canary derived from the demonstration test of the seeded change /verif/seeded/C06_b9 (fails on code with that defect, passes on the original).
package keeper_test

import (
	"crypto/sha256"
	"encoding/binary"
	"testing"

	ethtypes "github.com/ethereum/go-ethereum/core/types"
	keepertest "github.com/goatnetwork/goat/testutil/keeper"
	"github.com/goatnetwork/goat/testutil/mock"
	"github.com/goatnetwork/goat/x/bitcoin/types"
	"github.com/stretchr/testify/require"
	"go.uber.org/mock/gomock"
)

// TestSeedDemo checks the hand-over of a withdrawal backlog that is LONGER than
// the per-block withdrawal cap (8 paid + rejected withdrawals per execution
// block): a relayer finalised one batch of 10 withdrawals (a batch may carry up
// to 32) and approved 2 cancellations between two execution blocks.
//
// C06: every owed item is handed over exactly once, first-in-first-out, with
// consecutive nonces, and never more than the per-block cap at once.
func TestVerifReplay(t *testing.T) {
	const maxWithdrawalPerBlock = 8

	ctl := gomock.NewController(t)
	defer ctl.Finish()
	k, ctx, _ := keepertest.BitcoinKeeper(t, mock.NewMockRelayerKeeper(ctl))

	var paid []*types.WithdrawalExecReceipt
	for i := uint64(0); i < 10; i++ {
		var raw [8]byte
		binary.LittleEndian.PutUint64(raw[:], i)
		txid := sha256.Sum256(raw[:])
		paid = append(paid, &types.WithdrawalExecReceipt{
			Id:      i,
			Receipt: &types.WithdrawalReceipt{Txid: txid[:], Txout: uint32(i), Amount: 1000 + i},
		})
	}
	rejected := []uint64{100, 101}

	require.NoError(t, k.BlockTip.Set(ctx, 0))
	require.NoError(t, k.EthTxNonce.Set(ctx, 0))
	require.NoError(t, k.EthTxQueue.Set(ctx, types.EthTxQueue{
		BlockNumber:         0,
		PaidWithdrawals:     paid,
		RejectedWithdrawals: rejected,
	}))

	// the full owed sequence, in hand-over order, numbered consecutively
	var owed []*ethtypes.Transaction
	for _, p := range paid[:8] {
		owed = append(owed, p.EthTx(uint64(len(owed))))
	}
	for _, p := range paid[8:] {
		owed = append(owed, p.EthTx(uint64(len(owed))))
	}
	for _, id := range rejected {
		owed = append(owed, types.NewRejectEthTx(id, uint64(len(owed))))
	}

	var handed [][]byte
	var perBlock []int
	for round := 0; round < 8; round++ {
		txs, err := k.DequeueBitcoinModuleTx(ctx)
		require.NoError(t, err)
		if len(txs) == 0 {
			break
		}
		perBlock = append(perBlock, len(txs))
		for _, tx := range txs {
			raw, err := tx.MarshalBinary()
			require.NoError(t, err)
			handed = append(handed, raw)
		}

		// the persisted nonce always equals the number of txs handed over so far
		nonce, err := k.EthTxNonce.Peek(ctx)
		require.NoError(t, err)
		require.EqualValues(t, len(handed), nonce, "nonce after block %d", round)
	}

	// exactly once, in order, consecutive nonces
	require.Len(t, handed, len(owed))
	for i, tx := range owed {
		want, err := tx.MarshalBinary()
		require.NoError(t, err)
		require.Equal(t, want, handed[i], "owed tx %d", i)
	}

	// never more than the cap of withdrawal txs in one execution block
	for i, n := range perBlock {
		require.LessOrEqual(t, n, maxWithdrawalPerBlock, "execution block %d carries %d withdrawal txs", i, n)
	}
	require.Equal(t, []int{8, 4}, perBlock)

	queue, err := k.EthTxQueue.Get(ctx)
	require.NoError(t, err)
	require.Empty(t, queue.PaidWithdrawals)
	require.Empty(t, queue.RejectedWithdrawals)
}
