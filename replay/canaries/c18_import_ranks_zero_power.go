package keeper_test

// Canary input for C18 / C13 (derived indices rebuilt on import satisfy the invariants the running chain maintains;
// every validator update is acceptable to CometBFT): an exported state that holds a PENDING validator with voting
// power 0 (a validator created with less than one power unit of locking; at run time `lock` does not rank it).
// Import must not rank it either: if it does, the first end blocker activates it and reports
// ValidatorUpdate{Power: 0} for a validator CometBFT has never seen, which CometBFT rejects.

import (
	"testing"

	"cosmossdk.io/collections"
	"github.com/cosmos/cosmos-sdk/crypto/keys/secp256k1"
	sdk "github.com/cosmos/cosmos-sdk/types"
	keepertest "github.com/goatnetwork/goat/testutil/keeper"
	locking "github.com/goatnetwork/goat/x/locking/module"
	"github.com/goatnetwork/goat/x/locking/types"
)

func TestVerifReplay(t *testing.T) {
	k, ctx := keepertest.LockingKeeper(t, nil)
	gs := types.DefaultGenesis()
	pk := secp256k1.GenPrivKeyFromSecret([]byte("dust validator")).PubKey().(*secp256k1.PubKey)
	gs.Validators = []types.Validator{{Pubkey: pk.Key, Power: 0, Status: types.Pending, Locking: sdk.NewCoins()}}
	vs := locking.InitGenesis(ctx, k, *gs)
	if len(vs) != 0 {
		t.Fatalf("no active validator in the genesis, got %d initial updates", len(vs))
	}
	addr := sdk.ConsAddress(pk.Address())
	ranked, err := k.PowerRanking.Has(ctx, collections.Join(uint64(0), addr))
	if err != nil {
		t.Fatal(err)
	}
	updates, err := k.EndBlocker(ctx)
	if err != nil {
		t.Fatalf("VERIF-REPLAY-VIOLATED the first end blocker after the import fails: %v", err)
	}
	for _, u := range updates {
		if u.Power == 0 {
			t.Fatalf("VERIF-REPLAY-VIOLATED imported zero-power validator ranked=%v; first end blocker reports ValidatorUpdate{Power: 0} for a validator outside CometBFT's set", ranked)
		}
	}
	if ranked {
		t.Fatalf("VERIF-REPLAY-VIOLATED import ranked a validator with power 0 (the running chain never does)")
	}
}
