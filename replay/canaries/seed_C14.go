// Canary derived from the demonstration test of the seeded change /verif/seeded/C14 (fails on code with that defect, passes on the original).
package keeper_test

import (
	"testing"
	"time"

	"cosmossdk.io/collections"
	"cosmossdk.io/math"
	abci "github.com/cometbft/cometbft/abci/types"
	cmtproto "github.com/cometbft/cometbft/proto/tendermint/types"
	"github.com/cosmos/cosmos-sdk/baseapp"
	sdk "github.com/cosmos/cosmos-sdk/types"
	"github.com/ethereum/go-ethereum/common"
	"github.com/ethereum/go-ethereum/core/types/goattypes"
	keepertest "github.com/goatnetwork/goat/testutil/keeper"
	"github.com/goatnetwork/goat/testutil/mock"
	"github.com/goatnetwork/goat/x/locking/types"
	"github.com/stretchr/testify/require"
	"go.uber.org/mock/gomock"
)

// C14: a validator with unexpired double-sign evidence is tombstoned for good,
// it never regains voting power or validator-set membership, whatever weight
// requests come later.
//
// Sequence: an active validator double-signs; the weight of its only token is
// set to zero (power 0, demoted to pending); the evidence arrives; the weight
// is restored.
func TestVerifReplay(t *testing.T) {
	ctl := gomock.NewController(t)
	defer ctl.Finish()

	k, ctx := keepertest.LockingKeeper(t, mock.NewMockAccountKeeper(ctl))

	now := time.Now().UTC()
	ctx = ctx.WithBlockHeight(100).WithBlockTime(now).
		WithConsensusParams(cmtproto.ConsensusParams{Evidence: &cmtproto.EvidenceParams{
			MaxAgeNumBlocks: 100000,
			MaxAgeDuration:  time.Hour * 48,
		}})

	nativeDenom := types.TokenDenom(common.Address{})
	const weight = uint64(1e4)

	require.NoError(t, k.Tokens.Set(ctx, nativeDenom,
		types.Token{Weight: weight, Threshold: math.NewIntFromUint64(1e18)}))
	require.NoError(t, k.Threshold.Set(ctx, types.Threshold{
		List: sdk.NewCoins(sdk.NewCoin(nativeDenom, math.NewIntFromUint64(1e18))),
	}))

	proposer := sdk.ConsAddress(common.Hex2Bytes("108ca95b90e680f7e4374f911521941fe78b85ce"))

	// the offender: active, 2 native tokens locked => power 20000
	addr := sdk.ConsAddress(common.Hex2Bytes("f0933654a540830e283b87bba9ff2eb16b5acd1d"))
	offender := types.Validator{
		Pubkey:    common.Hex2Bytes("03ac22905ded6095255f498cd5cb217b6ebf0d82c7df2c89bce6e9089dd51e6f50"),
		Power:     20000,
		Reward:    math.ZeroInt(),
		GasReward: math.ZeroInt(),
		Status:    types.Active,
		Locking:   sdk.NewCoins(sdk.NewCoin(nativeDenom, math.NewIntFromUint64(2e18))),
	}
	require.NoError(t, k.Validators.Set(ctx, addr, offender))
	require.NoError(t, k.Locking.Set(ctx, collections.Join(nativeDenom, addr), math.NewIntFromUint64(2e18)))
	require.NoError(t, k.PowerRanking.Set(ctx, collections.Join(offender.Power, addr)))
	require.NoError(t, k.ValidatorSet.Set(ctx, addr, offender.Power))

	// step 1: the token weight is set to zero, the validator has no power
	// any more and is taken out of the validator set
	require.NoError(t, k.UpdateTokens(ctx,
		[]*goattypes.UpdateTokenWeightRequest{{Token: common.Address{}, Weight: 0}}, nil))
	updates, err := k.EndBlocker(ctx)
	require.NoError(t, err)
	require.Len(t, updates, 1)
	require.EqualValues(t, 0, updates[0].Power)

	val, err := k.Validators.Get(ctx, addr)
	require.NoError(t, err)
	require.Equal(t, types.Pending, val.Status)
	require.EqualValues(t, 0, val.Power)

	// step 2: fresh double-sign evidence from the time it was active arrives
	evctx := ctx.WithBlockHeight(101).WithBlockTime(now.Add(time.Second * 3)).
		WithCometInfo(baseapp.NewBlockInfo([]abci.Misbehavior{{
			Type:      abci.MisbehaviorType_DUPLICATE_VOTE,
			Validator: abci.Validator{Address: addr, Power: 20000},
			Time:      now.Add(-time.Minute),
			Height:    90,
		}}, nil, proposer, abci.CommitInfo{}))
	require.NoError(t, k.HandleEvidences(evctx))

	val, err = k.Validators.Get(evctx, addr)
	require.NoError(t, err)
	require.Equal(t, types.Tombstoned, val.Status)
	require.EqualValues(t, 0, val.Power)
	// slashed by the double sign fraction (5%)
	require.Equal(t, sdk.NewCoins(sdk.NewCoin(nativeDenom, math.NewIntFromUint64(19e17))), val.Locking)

	// step 3: the weight of the token is restored
	require.NoError(t, k.UpdateTokens(evctx,
		[]*goattypes.UpdateTokenWeightRequest{{Token: common.Address{}, Weight: weight}}, nil))

	// the tombstoned validator must stay out for good
	val, err = k.Validators.Get(evctx, addr)
	require.NoError(t, err)
	require.Equal(t, types.Tombstoned, val.Status)
	require.EqualValues(t, 0, val.Power, "tombstoned validator regained voting power")

	rankIter, err := k.PowerRanking.Iterate(evctx, nil)
	require.NoError(t, err)
	ranking, err := rankIter.Keys()
	require.NoError(t, err)
	for _, key := range ranking {
		require.NotEqual(t, addr, key.K2(), "tombstoned validator is ranked again")
	}

	updates, err = k.EndBlocker(evctx)
	require.NoError(t, err, "end blocker fails because of the tombstoned validator")
	require.Len(t, updates, 0)

	inSet, err := k.ValidatorSet.Has(evctx, addr)
	require.NoError(t, err)
	require.False(t, inSet)
}
