// Canary derived from the demonstration test of the seeded change /verif/seeded/C08 (fails on code with that defect, passes on the original).
package keeper_test

import (
	"bytes"
	"math/big"
	"testing"

	"cosmossdk.io/core/comet"
	"cosmossdk.io/math"
	abci "github.com/cometbft/cometbft/abci/types"
	sdk "github.com/cosmos/cosmos-sdk/types"
	"github.com/ethereum/go-ethereum/beacon/engine"
	"github.com/ethereum/go-ethereum/core/types/goattypes"
	"github.com/ethereum/go-ethereum/params"
	keepertest "github.com/goatnetwork/goat/testutil/keeper"
	"github.com/goatnetwork/goat/testutil/mock"
	"github.com/goatnetwork/goat/x/goat/keeper"
	"github.com/goatnetwork/goat/x/goat/types"
	"github.com/stretchr/testify/require"
	"go.uber.org/mock/gomock"
	protov2 "google.golang.org/protobuf/proto"
)

// seedCometInfo provides the consensus proposer of the block being checked
type seedCometInfo struct{ proposer []byte }

func (seedCometInfo) GetEvidence() comet.EvidenceList { return nil }
func (seedCometInfo) GetValidatorsHash() []byte       { return nil }
func (c seedCometInfo) GetProposerAddress() []byte    { return c.proposer }
func (seedCometInfo) GetLastCommit() comet.CommitInfo { return nil }

// seedTx is a decoded transaction carrying the given messages
type seedTx struct{ msgs []sdk.Msg }

func (t seedTx) GetMsgs() []sdk.Msg                    { return t.msgs }
func (seedTx) GetMsgsV2() ([]protov2.Message, error) { return nil, nil }

// seedVerifier stands for the baseapp tx verifier: raw tx i decodes to txs[i]
type seedVerifier struct{ txs map[string]sdk.Tx }

func (v seedVerifier) PrepareProposalVerifyTx(tx sdk.Tx) ([]byte, error) { return nil, nil }
func (v seedVerifier) ProcessProposalVerifyTx(raw []byte) (sdk.Tx, error) {
	return v.txs[string(raw)], nil
}
func (v seedVerifier) TxDecode(raw []byte) (sdk.Tx, error) { return v.txs[string(raw)], nil }
func (v seedVerifier) TxEncode(tx sdk.Tx) ([]byte, error)  { return nil, nil }

// TestSeedDemo: a proposal is accepted only if its execution payload names the
// consensus proposer as the fee recipient, and every accepted proposal's
// execution-block message succeeds when finalised.
func TestVerifReplay(t *testing.T) {
	ctl := gomock.NewController(t)
	defer ctl.Finish()

	accountKeeper := mock.NewMockAccountKeeper(ctl)
	bitcoinKeeper := mock.NewMockBitcoinKeeper(ctl)
	lockingKeeper := mock.NewMockLockingKeeper(ctl)
	relayerKeeper := mock.NewMockRelayerKeeper(ctl)
	ethClient := mock.NewMockEngineClient(ctl)

	k, ctx, addrCodec := keepertest.GoatKeeper(t, bitcoinKeeper, lockingKeeper, relayerKeeper, accountKeeper, ethClient)

	proposer := bytes.Repeat([]byte{0xab}, 20)
	proposerStr, err := addrCodec.BytesToString(proposer)
	require.NoError(t, err)
	ctx = ctx.WithCometInfo(seedCometInfo{proposer: proposer}).WithBlockHeight(11)

	// committed state: execution head 10 and the recorded beacon root
	head := types.ExecutionPayload{
		BlockNumber:   10,
		BlockHash:     bytes.Repeat([]byte{0x10}, 32),
		ParentHash:    bytes.Repeat([]byte{0x09}, 32),
		BaseFeePerGas: math.NewInt(7),
	}
	beaconRoot := bytes.Repeat([]byte{0xbe}, 32)
	require.NoError(t, k.Block.Set(ctx, head))
	require.NoError(t, k.BeaconRoot.Set(ctx, beaconRoot))

	// no system transactions are due, the execution layer is well-behaved
	bitcoinKeeper.EXPECT().DequeueBitcoinModuleTx(gomock.Any()).Return(nil, nil).AnyTimes()
	lockingKeeper.EXPECT().DequeueLockingModuleTx(gomock.Any()).Return(nil, nil).AnyTimes()
	lockingKeeper.EXPECT().ProcessLockingRequest(gomock.Any(), gomock.Any()).Return(nil).AnyTimes()
	bitcoinKeeper.EXPECT().ProcessBridgeRequest(gomock.Any(), gomock.Any()).Return(nil).AnyTimes()
	relayerKeeper.EXPECT().ProcessRelayerRequest(gomock.Any(), gomock.Any()).Return(nil).AnyTimes()
	ethClient.EXPECT().NewPayloadV4(gomock.Any(), gomock.Any(), gomock.Any(), gomock.Any(), gomock.Any()).
		Return(&engine.PayloadStatusV1{Status: engine.VALID}, nil).AnyTimes()

	gasReq := append([]byte{goattypes.GasRequestType}, goattypes.NewGasRequest(11, big.NewInt(1)).Encode()...)
	newMsg := func(feeRecipient []byte) *types.MsgNewEthBlock {
		return &types.MsgNewEthBlock{
			Proposer: proposerStr,
			Payload: &types.ExecutionPayload{
				ParentHash:    head.BlockHash,
				FeeRecipient:  feeRecipient,
				StateRoot:     bytes.Repeat([]byte{0x01}, 32),
				ReceiptsRoot:  bytes.Repeat([]byte{0x02}, 32),
				LogsBloom:     make([]byte, 256),
				PrevRandao:    bytes.Repeat([]byte{0x03}, 32),
				BlockNumber:   head.BlockNumber + 1,
				GasLimit:      30_000_000,
				Timestamp:     1,
				ExtraData:     make([]byte, params.GoatHeaderExtraLengthV0),
				BaseFeePerGas: math.NewInt(7),
				BlockHash:     bytes.Repeat([]byte{0x11}, 32),
				BeaconRoot:    beaconRoot,
				Requests:      [][]byte{gasReq},
			},
		}
	}

	process := func(msg *types.MsgNewEthBlock) error {
		verifier := seedVerifier{txs: map[string]sdk.Tx{"eth": seedTx{msgs: []sdk.Msg{msg}}}}
		handler := k.ProcessProposalHandler(verifier)
		res, err := handler(ctx, &abci.RequestProcessProposal{Txs: [][]byte{[]byte("eth")}, Height: 11, ProposerAddress: proposer})
		if err != nil {
			return err
		}
		require.Equal(t, abci.ResponseProcessProposal_ACCEPT, res.Status)
		return nil
	}

	// control: the honest proposal is accepted and its message can be finalised
	honest := newMsg(proposer)
	require.NoError(t, process(honest), "honest proposal must be accepted")
	{
		cacheCtx, _ := ctx.CacheContext()
		_, err := keeper.NewMsgServerImpl(k).NewEthBlock(cacheCtx, honest)
		require.NoError(t, err, "honest execution-block message must succeed when finalised")
	}

	// the fee recipient field is not the proposer: it is a 32-byte value that
	// merely ends with the proposer's 20 bytes
	padded := newMsg(append(bytes.Repeat([]byte{0x00}, 12), proposer...))
	err = process(padded)
	if err == nil {
		cacheCtx, _ := ctx.CacheContext()
		_, finalErr := keeper.NewMsgServerImpl(k).NewEthBlock(cacheCtx, padded)
		t.Fatalf("proposal whose fee recipient (%x) is not the proposer (%x) was accepted; finalising its execution-block message gives: %v",
			padded.Payload.FeeRecipient, proposer, finalErr)
	}
	require.ErrorContains(t, err, "fee recipient mismatched")

	// same with garbage in the leading bytes
	garbage := newMsg(append(bytes.Repeat([]byte{0xff}, 12), proposer...))
	require.Error(t, process(garbage), "proposal with a non-proposer fee recipient must be rejected")
}
