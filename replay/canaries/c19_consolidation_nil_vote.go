package types_test

// Canary input for C19 (stateless validation rejects malformed messages with an error): a consolidation message
// whose Vote sub-message is nil. Validate must return an error; on the unrepaired code it dereferences the nil
// Vote (runtime panic inside Validate, recovered only by baseapp's runTx).

import (
	"testing"

	"github.com/goatnetwork/goat/x/bitcoin/types"
)

func TestVerifReplay(t *testing.T) {
	msg := &types.MsgNewConsolidation{Proposer: "goat1xa56637tjn857jyg2plgvhdclzmr4crxzn5xus", NoWitnessTx: make([]byte, types.MinBtcTxSize)}
	defer func() {
		if r := recover(); r != nil {
			t.Fatalf("VERIF-REPLAY-VIOLATED MsgNewConsolidation{Vote: nil}.Validate() panicked instead of returning an error: %v", r)
		}
	}()
	if err := msg.Validate(); err == nil {
		t.Fatalf("VERIF-REPLAY-VIOLATED MsgNewConsolidation{Vote: nil}.Validate() accepted a message without votes")
	}
}
