// Canary derived from the demonstration test of the seeded change /verif/seeded/C03_b9 (fails on code with that defect, passes on the original).
package keeper_test

import (
	"bytes"
	"math/big"
	"testing"

	"github.com/btcsuite/btcd/chaincfg/chainhash"
	"github.com/btcsuite/btcd/wire"
	"github.com/ethereum/go-ethereum/common"
	goatcrypto "github.com/goatnetwork/goat/pkg/crypto"
	keepertest "github.com/goatnetwork/goat/testutil/keeper"
	"github.com/goatnetwork/goat/testutil/mock"
	"github.com/goatnetwork/goat/x/bitcoin/keeper"
	"github.com/goatnetwork/goat/x/bitcoin/types"
	relayer "github.com/goatnetwork/goat/x/relayer/types"
	"github.com/stretchr/testify/require"
	"go.uber.org/mock/gomock"
)

// TestSeedDemo: C03 value-exactness end to end. A large (but perfectly valid)
// deposit is SPV-proven through MsgNewDeposits, dequeued as the goat deposit
// tx, and the credit carried by that tx (amount + tax, in wei) must equal the
// bitcoin output value (in satoshi) scaled by 1e10.
func TestVerifReplay(t *testing.T) {
	ctl := gomock.NewController(t)
	defer ctl.Finish()
	relayerKeeper := mock.NewMockRelayerKeeper(ctl)
	k, ctx, _ := keepertest.BitcoinKeeper(t, relayerKeeper)

	pubkey := relayer.PublicKey{Key: &relayer.PublicKey_Secp256K1{
		Secp256K1: common.Hex2Bytes("0383560def84048edefe637d0119a4428dd12a42765a118b2bf77984057633c50e"),
	}}
	evmAddress := common.HexToAddress("0xbC122aEc3EdD80433dfE3c708b2E549B5A7Ab96E")

	param := types.DefaultParams()
	param.DepositTaxRate = 2
	param.MaxDepositTax = 100
	require.NoError(t, k.Params.Set(ctx, param))
	require.NoError(t, k.EthTxQueue.Set(ctx, types.EthTxQueue{BlockNumber: 200})) // block hashes up to the tip already relayed

	// 20 BTC: an ordinary whale deposit, 2e9 satoshi == 2e19 wei (> 2^64)
	const value = int64(20 * 1e8)

	// build the v1 deposit transaction
	payScript := append([]byte{0x00, 0x14}, goatcrypto.Hash160Sum(pubkey.GetSecp256K1())...)
	dataScript := append([]byte{0x6a, 0x18}, append(bytes.Clone(param.DepositMagicPrefix), evmAddress.Bytes()...)...)
	require.NoError(t, types.VerifyDespositScriptV1(&pubkey, param.DepositMagicPrefix, evmAddress.Bytes(), payScript, dataScript))

	depositTx := wire.NewMsgTx(2)
	depositTx.AddTxIn(wire.NewTxIn(wire.NewOutPoint(&chainhash.Hash{0x11}, 0), nil, nil))
	depositTx.AddTxOut(wire.NewTxOut(value, payScript))
	depositTx.AddTxOut(wire.NewTxOut(0, dataScript))
	var rawTx bytes.Buffer
	require.NoError(t, depositTx.SerializeNoWitness(&rawTx))
	txid := goatcrypto.DoubleSHA256Sum(rawTx.Bytes())

	// a two-transaction block: [some coinbase, deposit]
	coinbaseTxid := goatcrypto.DoubleSHA256Sum([]byte("coinbase"))
	merkleRoot := goatcrypto.DoubleSHA256Sum(append(bytes.Clone(coinbaseTxid), txid...))

	header := make([]byte, types.RawBtcHeaderSize)
	header[0] = 0x20
	copy(header[36:68], merkleRoot)
	blockHash := goatcrypto.DoubleSHA256Sum(header)

	const height = 200
	require.NoError(t, k.BlockHashes.Set(ctx, height, blockHash))
	require.NoError(t, k.BlockTip.Set(ctx, height))

	req := &types.MsgNewDeposits{
		Proposer:     "goat1xa56637tjn857jyg2plgvhdclzmr4crxzn5xus",
		BlockHeaders: []*types.BlockHeader{{Height: height, Raw: header}},
		Deposits: []*types.Deposit{{
			Version:           1,
			BlockNumber:       height,
			TxIndex:           1,
			NoWitnessTx:       rawTx.Bytes(),
			OutputIndex:       0,
			IntermediateProof: coinbaseTxid,
			EvmAddress:        evmAddress.Bytes(),
			RelayerPubkey:     &pubkey,
		}},
	}
	relayerKeeper.EXPECT().HasPubkey(ctx, relayer.EncodePublicKey(&pubkey)).Return(true, nil)
	relayerKeeper.EXPECT().VerifyNonProposal(ctx, req).Return(nil, nil)

	_, err := keeper.NewMsgServerImpl(k).NewDeposits(ctx, req)
	require.NoError(t, err)

	// the receipt itself is value-exact
	queue, err := k.EthTxQueue.Get(ctx)
	require.NoError(t, err)
	require.Len(t, queue.Deposits, 1)
	require.EqualValues(t, 100, queue.Deposits[0].Tax)
	require.EqualValues(t, value, queue.Deposits[0].Amount+queue.Deposits[0].Tax)

	// ... and so must be the credit that is handed over to the execution layer
	txs, err := k.DequeueBitcoinModuleTx(ctx)
	require.NoError(t, err)
	require.Len(t, txs, 1)

	mint := txs[0].Deposit()
	require.NotNil(t, mint, "expected a goat deposit tx")

	wei := big.NewInt(1e10)
	wantTotal := new(big.Int).Mul(big.NewInt(value), wei)
	wantTax := new(big.Int).Mul(big.NewInt(100), wei)
	gotTotal := new(big.Int).Add(mint.Amount, mint.Tax)

	require.Equal(t, evmAddress, mint.Address)
	require.Zero(t, wantTax.Cmp(mint.Tax), "tax: want %s got %s", wantTax, mint.Tax)
	require.Zero(t, wantTotal.Cmp(gotTotal),
		"credited amount + tax must equal the output value: want %s wei, got %s wei", wantTotal, gotTotal)
}
