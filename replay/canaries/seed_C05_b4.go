// Canary derived from the demonstration test of the seeded change /verif/seeded/C05_b4 (fails on code with that defect, passes on the original).
package keeper_test

import (
	"bytes"
	"testing"

	"github.com/btcsuite/btcd/chaincfg/chainhash"
	"github.com/btcsuite/btcd/wire"
	sdk "github.com/cosmos/cosmos-sdk/types"
	"github.com/ethereum/go-ethereum/common"
	"github.com/ethereum/go-ethereum/core/types/goattypes"
	goatcrypto "github.com/goatnetwork/goat/pkg/crypto"
	keepertest "github.com/goatnetwork/goat/testutil/keeper"
	"github.com/goatnetwork/goat/testutil/mock"
	"github.com/goatnetwork/goat/x/bitcoin/keeper"
	"github.com/goatnetwork/goat/x/bitcoin/types"
	relayertypes "github.com/goatnetwork/goat/x/relayer/types"
	"github.com/stretchr/testify/require"
	"go.uber.org/mock/gomock"
)

// C05: a withdrawal may only be processed (or fee-bumped) by a transaction whose
// fee rate, fee / non-witness size, is NOT ABOVE the user's current maximum.
// The boundary is fractional: with a maximum of 5 sat/B and a tx of N bytes any
// fee in (5N, 6N) is a rate strictly between 5 and 6 and has to be refused.
func TestVerifReplay(t *testing.T) {
	const (
		wid        = uint64(7)
		userAddr   = "bcrt1qy728d54p6ftlpnwvfpjpkdne6sg3saq4qzezpx"
		maxTxPrice = uint64(5)
		reqAmount  = uint64(100_000)
	)

	userScript, err := types.DecodeBtcAddress(userAddr, types.BitcoinNetworks["regtest"])
	require.NoError(t, err)

	// a no-witness tx with a single output paying `value` to the user
	buildTx := func(value int64) []byte {
		tx := wire.NewMsgTx(2)
		prev := chainhash.Hash(common.HexToHash("0x0edf5fd57073536055ae60c66778fb9de11fb3ae8aa792c2cf99c91a523e0e2e"))
		tx.AddTxIn(wire.NewTxIn(wire.NewOutPoint(&prev, 0), nil, nil))
		tx.AddTxOut(wire.NewTxOut(value, userScript))
		var buf bytes.Buffer
		require.NoError(t, tx.SerializeNoWitness(&buf))
		return buf.Bytes()
	}

	type env struct {
		k      keeper.Keeper
		ctx    sdk.Context
		rk     *mock.MockRelayerKeeper
		server types.MsgServer
	}

	setup := func(t *testing.T) env {
		ctl := gomock.NewController(t)
		rk := mock.NewMockRelayerKeeper(ctl)
		k, ctx, _ := keepertest.BitcoinKeeper(t, rk)
		require.NoError(t, k.EthTxQueue.Set(ctx, types.EthTxQueue{}))

		rk.EXPECT().VerifyProposal(gomock.Any(), gomock.Any()).Return(uint64(100), nil).AnyTimes()
		rk.EXPECT().SetProposalSeq(gomock.Any(), gomock.Any()).Return(nil).AnyTimes()
		rk.EXPECT().UpdateRandao(gomock.Any(), gomock.Any()).Return(nil).AnyTimes()

		// the user asks for a withdrawal with at most 5 sat/B
		require.NoError(t, k.ProcessBridgeRequest(ctx, goattypes.BridgeRequests{
			Withdraws: []*goattypes.WithdrawalRequest{{Id: wid, Amount: reqAmount, TxPrice: maxTxPrice, Address: userAddr}},
		}))
		return env{k: k, ctx: ctx, rk: rk, server: keeper.NewMsgServerImpl(k)}
	}

	vote := &relayertypes.Votes{Signature: make([]byte, goatcrypto.SignatureLength)}
	const proposer = "goat1xa56637tjn857jyg2plgvhdclzmr4crxzn5xus"

	t.Run("process", func(t *testing.T) {
		e := setup(t)

		rawTx := buildTx(99_000)
		size := uint64(len(rawTx))

		// rate = 6 - 1/size sat/B, i.e. almost 20% above the user's limit
		fee := (maxTxPrice+1)*size - 1
		require.Greater(t, float64(fee)/float64(size), float64(maxTxPrice))

		_, err := e.server.ProcessWithdrawal(e.ctx, &types.MsgProcessWithdrawal{
			Proposer: proposer, Vote: vote, Id: []uint64{wid}, NoWitnessTx: rawTx, TxFee: fee,
		})
		require.Error(t, err, "fee rate %d/%d sat/B is above the user's max %d but the withdrawal was processed", fee, size, maxTxPrice)

		wd, err := e.k.Withdrawals.Get(e.ctx, wid)
		require.NoError(t, err)
		require.Equal(t, types.WITHDRAWAL_STATUS_PENDING, wd.Status)
		require.Nil(t, wd.Receipt)

		// the exact limit is still fine
		_, err = e.server.ProcessWithdrawal(e.ctx, &types.MsgProcessWithdrawal{
			Proposer: proposer, Vote: vote, Id: []uint64{wid}, NoWitnessTx: rawTx, TxFee: maxTxPrice * size,
		})
		require.NoError(t, err)
	})

	t.Run("replace", func(t *testing.T) {
		e := setup(t)

		firstTx := buildTx(99_000)
		size := uint64(len(firstTx))

		_, err := e.server.ProcessWithdrawal(e.ctx, &types.MsgProcessWithdrawal{
			Proposer: proposer, Vote: vote, Id: []uint64{wid}, NoWitnessTx: firstTx, TxFee: 4 * size,
		})
		require.NoError(t, err)

		before, err := e.k.Withdrawals.Get(e.ctx, wid)
		require.NoError(t, err)
		require.Equal(t, types.WITHDRAWAL_STATUS_PROCESSING, before.Status)

		// fee bump paying the user less, with a rate strictly between 5 and 6 sat/B
		secondTx := buildTx(98_800)
		require.EqualValues(t, size, len(secondTx))
		fee := maxTxPrice*size + size/2
		require.Greater(t, float64(fee)/float64(size), float64(maxTxPrice))

		_, err = e.server.ReplaceWithdrawal(e.ctx, &types.MsgReplaceWithdrawal{
			Proposer: proposer, Vote: vote, Pid: 0, NewNoWitnessTx: secondTx, NewTxFee: fee,
		})
		require.Error(t, err, "fee rate %d/%d sat/B is above the user's max %d but the replacement was accepted", fee, size, maxTxPrice)

		after, err := e.k.Withdrawals.Get(e.ctx, wid)
		require.NoError(t, err)
		require.Equal(t, before, after)

		processing, err := e.k.Processing.Get(e.ctx, 0)
		require.NoError(t, err)
		require.Len(t, processing.Txid, 1)
		require.EqualValues(t, 4*size, processing.Fee)
	})
}
