// Canary derived from the demonstration test of the seeded change /verif/seeded/C06 (fails on code with that defect, passes on the original).
package keeper_test

import (
	"context"
	"math/big"
	"testing"

	"cosmossdk.io/math"
	"github.com/ethereum/go-ethereum/common"
	ethtypes "github.com/ethereum/go-ethereum/core/types"
	"github.com/ethereum/go-ethereum/params"
	keepertest "github.com/goatnetwork/goat/testutil/keeper"
	"github.com/goatnetwork/goat/testutil/mock"
	bitcointypes "github.com/goatnetwork/goat/x/bitcoin/types"
	lockingtypes "github.com/goatnetwork/goat/x/locking/types"
	"github.com/stretchr/testify/require"
	"go.uber.org/mock/gomock"
)

// TestSeedDemo checks the acceptance half of C06: an execution payload is
// accepted only if its leading system transactions are byte-for-byte the ones
// due at that point. Both module queues hold one due item (a credited deposit
// and a claimed reward). A proposer sends a payload that carries the deposit
// tx, declares only ONE goat tx in the header and omits the due reward tx.
// Such a payload must be refused.
func TestVerifReplay(t *testing.T) {
	ctl := gomock.NewController(t)
	defer ctl.Finish()

	relayerMock := mock.NewMockRelayerKeeper(ctl)
	accountMock := mock.NewMockAccountKeeper(ctl)
	bitcoinMock := mock.NewMockBitcoinKeeper(ctl)
	lockingMock := mock.NewMockLockingKeeper(ctl)
	engineMock := mock.NewMockEngineClient(ctl)

	// real module keepers (each one lives on its own store), the goat keeper
	// reaches them through forwarding mocks
	btcKeeper, btcCtx, _ := keepertest.BitcoinKeeper(t, relayerMock)
	lockKeeper, lockCtx := keepertest.LockingKeeper(t, accountMock)
	goatKeeper, goatCtx, _ := keepertest.GoatKeeper(t, bitcoinMock, lockingMock, relayerMock, accountMock, engineMock)

	deposit := &bitcointypes.DepositExecReceipt{
		Txid:    common.Hex2Bytes("2f6af73e06798b2caaf4c355e0cdf2b8581667462c2f26e1ee27c3ab07e4a05e"),
		Txout:   0,
		Address: common.Hex2Bytes("dc90965f6ba338ec181e652fef3f2f26804ed823"),
		Amount:  100,
	}
	reward := &lockingtypes.Reward{
		Id:        7,
		Recipient: common.Hex2Bytes("8743c8f569103715dce9d16394185a8c8dc721ec"),
		Goat:      math.NewInt(10),
		Gas:       math.NewInt(1),
	}

	require.NoError(t, btcKeeper.EthTxQueue.Set(btcCtx, bitcointypes.EthTxQueue{
		Deposits: []*bitcointypes.DepositExecReceipt{deposit},
	}))
	require.NoError(t, lockKeeper.EthTxQueue.Set(lockCtx, lockingtypes.EthTxQueue{
		Rewards: []*lockingtypes.Reward{reward},
	}))

	marshal := func(tx *ethtypes.Transaction) []byte {
		raw, err := tx.MarshalBinary()
		require.NoError(t, err)
		return raw
	}
	depositTx := marshal(deposit.EthTx(0))
	rewardTx := marshal(reward.EthTx(0))
	userTx := marshal(ethtypes.NewTx(&ethtypes.LegacyTx{
		Nonce: 1, GasPrice: big.NewInt(1), Gas: 21000, To: &common.Address{1}, Value: big.NewInt(1),
	}))

	header := func(goatTxs byte) []byte {
		extra := make([]byte, params.GoatHeaderExtraLengthV0)
		extra[0] = goatTxs
		return extra
	}

	// verify runs VerifyDequeue on throw-away branches of the module stores and
	// reports what the locking queue looks like afterwards
	verify := func(txRoot []byte, txs [][]byte) (error, lockingtypes.EthTxQueue) {
		bctx, _ := btcCtx.CacheContext()
		lctx, _ := lockCtx.CacheContext()
		bitcoinMock.EXPECT().DequeueBitcoinModuleTx(gomock.Any()).DoAndReturn(
			func(context.Context) ([]*ethtypes.Transaction, error) {
				return btcKeeper.DequeueBitcoinModuleTx(bctx)
			}).MaxTimes(1)
		lockingMock.EXPECT().DequeueLockingModuleTx(gomock.Any()).DoAndReturn(
			func(context.Context) ([]*ethtypes.Transaction, error) {
				return lockKeeper.DequeueLockingModuleTx(lctx)
			}).MaxTimes(1)

		err := goatKeeper.VerifyDequeue(goatCtx, txRoot, txs)
		queue, qerr := lockKeeper.EthTxQueue.Get(lctx)
		require.NoError(t, qerr)
		return err, queue
	}

	// sanity: the honest payload (deposit tx, reward tx, then a user tx) is accepted
	// and hands over the reward
	err, queue := verify(header(2), [][]byte{depositTx, rewardTx, userTx})
	require.NoError(t, err)
	require.Len(t, queue.Rewards, 0)

	// the payload omits the due reward tx and declares a single goat tx
	err, queue = verify(header(1), [][]byte{depositTx, userTx})
	require.Error(t, err, "payload without the due locking tx was accepted (reward still queued: %d)", len(queue.Rewards))

	// same, with nothing after the deposit tx
	err, _ = verify(header(1), [][]byte{depositTx})
	require.Error(t, err, "payload without the due locking tx was accepted")
}
