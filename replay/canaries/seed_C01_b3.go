// Canary derived from the demonstration test of the seeded change /verif/seeded/C01_b3 (fails on code with that defect, passes on the original).
package keeper_test

import (
	"encoding/binary"
	"testing"
	"time"

	sdktypes "github.com/cosmos/cosmos-sdk/types"
	goatcrypto "github.com/goatnetwork/goat/pkg/crypto"
	keepertest "github.com/goatnetwork/goat/testutil/keeper"
	"github.com/goatnetwork/goat/x/relayer/types"
	"github.com/stretchr/testify/require"
)

// seedVoteMsg is a minimal voted relayer message.
type seedVoteMsg struct {
	proposer string
	vote     *types.Votes
	method   string
	payload  []byte
}

func (m *seedVoteMsg) GetProposer() string   { return m.proposer }
func (m *seedVoteMsg) GetVote() *types.Votes { return m.vote }
func (m *seedVoteMsg) MethodName() string    { return m.method }
func (m *seedVoteMsg) VoteSigDoc() []byte    { return m.payload }

func seedBitmap(positions ...int) []byte {
	var word uint64
	for _, p := range positions {
		word |= 1 << uint(p)
	}
	raw := make([]byte, 8)
	binary.LittleEndian.PutUint64(raw, word)
	return raw
}

// C01: a proposal without a genuine two-thirds quorum changes no state at all.
//
// The group is one freshly elected proposer (not yet accepted) and three
// voters, so the quorum is ceil(2*4/3) = 3 members. Every proposal below is
// sent by the current proposer but lacks the quorum; each of them must be
// rejected and must leave the relayer state and the event log untouched.
func TestVerifReplay(t *testing.T) {
	k, ctx, addrCodec := keepertest.RelayerKeeper(t, nil)

	const members = 4 // proposer + 3 voters
	sks := make([]*goatcrypto.PrivateKey, members)
	addrs := make([]string, members)
	for i := 0; i < members; i++ {
		sks[i] = goatcrypto.GenPrivKey()
		raw := make([]byte, 20)
		raw[0], raw[19] = 0xC1, byte(i+1)
		addr, err := addrCodec.BytesToString(raw)
		require.NoError(t, err)
		addrs[i] = addr
		require.NoError(t, k.Voters.Set(ctx, addr, types.Voter{
			Address: raw,
			VoteKey: new(goatcrypto.PublicKey).From(sks[i]).Compress(),
			Status:  types.VOTER_STATUS_ACTIVATED,
			Height:  1,
		}))
	}

	const epoch, sequence = uint64(7), uint64(42)
	initial := types.Relayer{
		Epoch:            epoch,
		Proposer:         addrs[0],
		Voters:           addrs[1:],
		LastElected:      time.Now().UTC(),
		ProposerAccepted: false, // just elected, nothing sent yet
	}
	require.NoError(t, k.Relayer.Set(ctx, initial))
	require.NoError(t, k.Sequence.Set(ctx, sequence))
	require.Equal(t, 3, initial.Threshold())

	method, payload := "Bitcoin/NewConsolidation", []byte("consolidation payload")
	chainID := sdktypes.UnwrapSDKContext(ctx).ChainID()

	// sign returns the aggregate signature of the given members (0 = proposer)
	sign := func(seq, ep uint64, data []byte, signers ...int) []byte {
		doc := types.VoteSignDoc(method, chainID, addrs[0], seq, ep, data)
		sigs := make([][]byte, 0, len(signers))
		for _, s := range signers {
			sigs = append(sigs, goatcrypto.Sign(sks[s], doc))
		}
		agg, err := goatcrypto.AggregateSignatures(sigs)
		require.NoError(t, err)
		return agg
	}

	newMsg := func(seq, ep uint64, bitmap, sig []byte) *seedVoteMsg {
		return &seedVoteMsg{
			proposer: addrs[0], method: method, payload: payload,
			vote: &types.Votes{Sequence: seq, Epoch: ep, Voters: bitmap, Signature: sig},
		}
	}

	noQuorum := []struct {
		name string
		msg  *seedVoteMsg
	}{
		{ // proposer + one voter: 2 of 4, below the threshold of 3
			"too few marks",
			newMsg(sequence, epoch, seedBitmap(0), sign(sequence, epoch, payload, 0, 1)),
		},
		{ // two voters are marked but only one of them signed
			"a mark without a signature",
			newMsg(sequence, epoch, seedBitmap(0, 1), sign(sequence, epoch, payload, 0, 1)),
		},
		{ // the second mark is beyond the voter list
			"a mark beyond the voter list",
			newMsg(sequence, epoch, seedBitmap(0, 40), sign(sequence, epoch, payload, 0, 1)),
		},
		{ // a full quorum signed, but another payload
			"quorum over another payload",
			newMsg(sequence, epoch, seedBitmap(0, 1, 2), sign(sequence, epoch, []byte("another payload"), 0, 1, 2, 3)),
		},
		{ // a full quorum signed, but for a sequence that is not the current one
			"quorum for another sequence",
			newMsg(sequence+1, epoch, seedBitmap(0, 1, 2), sign(sequence+1, epoch, payload, 0, 1, 2, 3)),
		},
		{ // a full quorum signed, but for a past epoch
			"quorum for another epoch",
			newMsg(sequence, epoch-1, seedBitmap(0, 1, 2), sign(sequence, epoch-1, payload, 0, 1, 2, 3)),
		},
	}

	for _, tc := range noQuorum {
		t.Run(tc.name, func(t *testing.T) {
			// fresh event log, same store
			runCtx := ctx.WithEventManager(sdktypes.NewEventManager())

			_, err := k.VerifyProposal(runCtx, tc.msg)
			require.Error(t, err, "a proposal without a quorum must be rejected")

			got, err := k.Relayer.Get(ctx)
			require.NoError(t, err)
			require.Equal(t, initial, got, "a proposal without a quorum must not change the relayer state")

			seq, err := k.Sequence.Peek(ctx)
			require.NoError(t, err)
			require.Equal(t, sequence, seq, "a proposal without a quorum must not move the sequence")

			require.Empty(t, runCtx.EventManager().Events(), "a proposal without a quorum must not emit events")
		})
	}

	// control: a genuine quorum (proposer + 2 of 3 voters) is accepted and it is
	// this proposal that makes the proposer accepted
	runCtx := ctx.WithEventManager(sdktypes.NewEventManager())
	seq, err := k.VerifyProposal(runCtx, newMsg(sequence, epoch, seedBitmap(0, 2), sign(sequence, epoch, payload, 0, 1, 3)))
	require.NoError(t, err)
	require.Equal(t, sequence, seq)

	got, err := k.Relayer.Get(ctx)
	require.NoError(t, err)
	accepted := initial
	accepted.ProposerAccepted = true
	require.Equal(t, accepted, got)
	require.Len(t, runCtx.EventManager().Events(), 1)
}
