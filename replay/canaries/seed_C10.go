// Canary derived from the demonstration test of the seeded change /verif/seeded/C10 (fails on code with that defect, passes on the original).
package app

import (
	"testing"

	"cosmossdk.io/log"
	txsigning "cosmossdk.io/x/tx/signing"
	cmtproto "github.com/cometbft/cometbft/proto/tendermint/types"
	"github.com/cosmos/cosmos-sdk/codec"
	addresscodec "github.com/cosmos/cosmos-sdk/codec/address"
	codectypes "github.com/cosmos/cosmos-sdk/codec/types"
	sdk "github.com/cosmos/cosmos-sdk/types"
	authtx "github.com/cosmos/cosmos-sdk/x/auth/tx"
	authtypes "github.com/cosmos/cosmos-sdk/x/auth/types"
	consensustypes "github.com/cosmos/cosmos-sdk/x/consensus/types"
	"github.com/cosmos/gogoproto/proto"
	"go.uber.org/mock/gomock"

	"github.com/goatnetwork/goat/testutil/mock"
	bitcointypes "github.com/goatnetwork/goat/x/bitcoin/types"
	goattypes "github.com/goatnetwork/goat/x/goat/types"
	relayertypes "github.com/goatnetwork/goat/x/relayer/types"
)

// TestSeedDemo checks the admission guard (C10): whatever the execution mode, a
// transaction is admitted only if EVERY message in it is a bitcoin/relayer
// message signed by the current relayer proposer; the execution-block message
// is the sole exception (process/finalise only, timeout == block height).
// In particular no multi-message combination may smuggle another registered
// message type (account / consensus parameter administration) past the guard.
func TestVerifReplay(t *testing.T) {
	const height = 10

	addrCodec := addresscodec.NewBech32Codec(AccountAddressPrefix)
	registry, err := codectypes.NewInterfaceRegistryWithOptions(codectypes.InterfaceRegistryOptions{
		ProtoFiles: proto.HybridResolver,
		SigningOptions: txsigning.Options{
			AddressCodec:          addrCodec,
			ValidatorAddressCodec: addresscodec.NewBech32Codec(AccountAddressPrefix + "valoper"),
		},
	})
	if err != nil {
		t.Fatal(err)
	}
	authtypes.RegisterInterfaces(registry)
	consensustypes.RegisterInterfaces(registry)
	goattypes.RegisterInterfaces(registry)
	bitcointypes.RegisterInterfaces(registry)
	relayertypes.RegisterInterfaces(registry)
	txConfig := authtx.NewTxConfig(codec.NewProtoCodec(registry), authtx.DefaultSignModes)

	proposer := sdk.AccAddress([]byte("relayer-proposer-addr"))
	proposerStr, err := addrCodec.BytesToString(proposer)
	if err != nil {
		t.Fatal(err)
	}

	ctrl := gomock.NewController(t)
	relayerKeeper := mock.NewMockRelayerKeeper(ctrl)
	relayerKeeper.EXPECT().GetCurrentProposer(gomock.Any()).Return(proposer, nil).AnyTimes()
	guard := GoatGuardHandler{relayerKeeper: relayerKeeper}

	ethBlock := &goattypes.MsgNewEthBlock{Proposer: proposerStr}
	relayerMsg := &bitcointypes.MsgNewPubkey{Proposer: proposerStr}
	authAdmin := &authtypes.MsgUpdateParams{Authority: proposerStr, Params: authtypes.DefaultParams()}
	consAdmin := &consensustypes.MsgUpdateParams{Authority: proposerStr}

	type testCase struct {
		name    string
		timeout uint64
		msgs    []sdk.Msg
		modes   []sdk.ExecMode
		admit   bool
	}

	mempool := []sdk.ExecMode{sdk.ExecModeCheck, sdk.ExecModeReCheck, sdk.ExecModePrepareProposal}
	inBlock := []sdk.ExecMode{sdk.ExecModeProcessProposal, sdk.ExecModeFinalize}
	all := append(append([]sdk.ExecMode{}, mempool...), inBlock...)

	cases := []testCase{
		// sanity: what must be admitted
		{"relayer msg", 0, []sdk.Msg{relayerMsg}, all, true},
		{"block msg in block", height, []sdk.Msg{ethBlock}, inBlock, true},
		// sanity: what must be refused
		{"block msg in mempool", height, []sdk.Msg{ethBlock}, mempool, false},
		{"block msg wrong timeout", height + 1, []sdk.Msg{ethBlock}, inBlock, false},
		{"auth admin alone", height, []sdk.Msg{authAdmin}, all, false},
		{"consensus admin alone", height, []sdk.Msg{consAdmin}, all, false},
		{"auth admin then block msg", height, []sdk.Msg{authAdmin, ethBlock}, all, false},
		// the interesting combinations: block msg first, then a forbidden message
		{"block msg then auth admin", height, []sdk.Msg{ethBlock, authAdmin}, all, false},
		{"block msg then consensus admin", height, []sdk.Msg{ethBlock, consAdmin}, all, false},
		{"block msg, relayer msg, auth admin", height, []sdk.Msg{ethBlock, relayerMsg, authAdmin}, all, false},
	}

	for _, tc := range cases {
		for _, mode := range tc.modes {
			builder := txConfig.NewTxBuilder()
			if err := builder.SetMsgs(tc.msgs...); err != nil {
				t.Fatal(err)
			}
			builder.SetTimeoutHeight(tc.timeout)
			builder.SetGasLimit(1e8)
			tx := builder.GetTx()

			ctx := sdk.NewContext(nil, cmtproto.Header{Height: height}, mode == sdk.ExecModeCheck || mode == sdk.ExecModeReCheck, log.NewNopLogger()).
				WithExecMode(mode)

			reached := false
			_, err := guard.AnteHandle(ctx, tx, false, func(ctx sdk.Context, _ sdk.Tx, _ bool) (sdk.Context, error) {
				reached = true
				return ctx, nil
			})
			admitted := reached && err == nil
			if admitted != tc.admit {
				t.Errorf("%s (exec mode %d, timeout %d): admitted=%v, want %v (err=%v)", tc.name, mode, tc.timeout, admitted, tc.admit, err)
			}
		}
	}
}
