// Canary derived from the demonstration test of the seeded change /verif/seeded/C16_b8 (fails on code with that defect, passes on the original).
package keeper_test

import (
	"testing"

	"github.com/ethereum/go-ethereum/common"
	"github.com/ethereum/go-ethereum/core/types/goattypes"
	"github.com/goatnetwork/goat/x/relayer/types"
)

// TestSeedDemo: C16 - after any election the proposer is a current member
// (still registered in the voter table), is not listed among the voters, and
// all members are distinct.
//
// Sequence: group {proposer V0, voters V1, V2, V3}; the execution layer asks, in
// one block, to remove the first listed voter V1 and the proposer V0 (two
// members stay, so the removals are accepted); the next election applies both.
func TestVerifReplay(t *testing.T) {
	suite := new(KeeperTestSuite)
	suite.SetT(t)
	suite.SetupTest()
	require := suite.Require()

	// activate all four voters
	for i := range suite.Voters {
		v := suite.Voters[i]
		v.Status = types.VOTER_STATUS_ACTIVATED
		require.NoError(suite.Keeper.Voters.Set(suite.Context, suite.VoterKeys[i].Address, v))
	}

	param, err := suite.Keeper.Params.Get(suite.Context)
	require.NoError(err)

	require.NoError(suite.Keeper.Relayer.Set(suite.Context, types.Relayer{
		Epoch:    7,
		Proposer: suite.VoterKeys[0].Address,
		Voters: []string{
			suite.VoterKeys[1].Address, suite.VoterKeys[2].Address, suite.VoterKeys[3].Address,
		},
		LastElected:      suite.Context.BlockTime(),
		ProposerAccepted: true,
	}))

	// execution layer: remove the first voter and the proposer in the same block
	require.NoError(suite.Keeper.ProcessRelayerRequest(suite.Context, goattypes.RelayerRequests{
		Removes: []*goattypes.RemoveVoterRequest{
			{Voter: common.Address(suite.Voters[1].Address)},
			{Voter: common.Address(suite.Voters[0].Address)},
		},
	}))

	queue, err := suite.Keeper.Queue.Get(suite.Context)
	require.NoError(err)
	require.ElementsMatch([]string{suite.VoterKeys[1].Address, suite.VoterKeys[0].Address}, queue.OffBoarding)

	// not yet due: nothing changes
	require.NoError(suite.Keeper.EndBlocker(suite.Context))
	before, err := suite.Keeper.Relayer.Get(suite.Context)
	require.NoError(err)
	require.EqualValues(7, before.Epoch)

	// election is due
	ctx := suite.Context.WithBlockTime(suite.Context.BlockTime().Add(param.ElectingPeriod))
	require.NoError(suite.Keeper.EndBlocker(ctx))

	relayer, err := suite.Keeper.Relayer.Get(ctx)
	require.NoError(err)
	require.EqualValues(8, relayer.Epoch)

	// removed members are gone from the voter table
	for _, i := range []int{0, 1} {
		has, err := suite.Keeper.Voters.Has(ctx, suite.VoterKeys[i].Address)
		require.NoError(err)
		require.False(has, "removed voter %d still registered", i)
	}

	// well-formedness of the group
	members := append([]string{relayer.Proposer}, relayer.Voters...)
	seen := map[string]bool{}
	for _, m := range members {
		require.False(seen[m], "duplicate member %s", m)
		seen[m] = true

		v, err := suite.Keeper.Voters.Get(ctx, m)
		require.NoError(err, "member %s is not a registered voter", m)
		require.Contains(
			[]types.VoterStatus{types.VOTER_STATUS_ACTIVATED, types.VOTER_STATUS_OFF_BOARDING}, v.Status,
			"member %s has status %s", m, v.Status)
	}
	require.NotContains(relayer.Voters, relayer.Proposer)
	require.ElementsMatch([]string{suite.VoterKeys[2].Address, suite.VoterKeys[3].Address}, members)
}
