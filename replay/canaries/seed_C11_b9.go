// Canary derived from the demonstration test of the seeded change /verif/seeded/C11_b9 (fails on code with that defect, passes on the original).
package keeper_test

import (
	"math/big"
	"testing"
	"time"

	"cosmossdk.io/math"
	abci "github.com/cometbft/cometbft/abci/types"
	tmtypes "github.com/cometbft/cometbft/proto/tendermint/types"
	sdk "github.com/cosmos/cosmos-sdk/types"
	"github.com/ethereum/go-ethereum/common"
	"github.com/ethereum/go-ethereum/core/types/goattypes"
	keepertest "github.com/goatnetwork/goat/testutil/keeper"
	"github.com/goatnetwork/goat/testutil/mock"
	"github.com/goatnetwork/goat/x/locking/keeper"
	"github.com/goatnetwork/goat/x/locking/types"
	"github.com/stretchr/testify/require"
	"go.uber.org/mock/gomock"
)

// seedDemoBalance returns held (validators), slashed and released (unlock
// queue + eth tx queue) totals per token.
func seedDemoBalance(t *testing.T, k keeper.Keeper, ctx sdk.Context) (held, slashed, released sdk.Coins) {
	t.Helper()

	held, slashed, released = sdk.Coins{}, sdk.Coins{}, sdk.Coins{}

	valIter, err := k.Validators.Iterate(ctx, nil)
	require.NoError(t, err)
	defer valIter.Close()
	for ; valIter.Valid(); valIter.Next() {
		v, err := valIter.Value()
		require.NoError(t, err)
		for _, c := range v.Locking {
			require.False(t, c.Amount.IsNegative(), "negative held amount")
		}
		held = held.Add(v.Locking...)
	}

	slIter, err := k.Slashed.Iterate(ctx, nil)
	require.NoError(t, err)
	defer slIter.Close()
	for ; slIter.Valid(); slIter.Next() {
		kv, err := slIter.KeyValue()
		require.NoError(t, err)
		require.False(t, kv.Value.IsNegative(), "negative slashed amount")
		slashed = slashed.Add(sdk.NewCoin(kv.Key, kv.Value))
	}

	addUnlock := func(u *types.Unlock) {
		require.False(t, u.Amount.IsNegative(), "negative released amount")
		denom := types.TokenDenom(common.BytesToAddress(u.Token))
		released = released.Add(sdk.NewCoin(denom, u.Amount))
	}

	uqIter, err := k.UnlockQueue.Iterate(ctx, nil)
	require.NoError(t, err)
	defer uqIter.Close()
	for ; uqIter.Valid(); uqIter.Next() {
		v, err := uqIter.Value()
		require.NoError(t, err)
		for _, u := range v.Unlocks {
			addUnlock(u)
		}
	}

	ethQueue, err := k.EthTxQueue.Get(ctx)
	require.NoError(t, err)
	for _, u := range ethQueue.Unlocks {
		addUnlock(u)
	}
	return held, slashed, released
}

// TestSeedDemo checks C11 (locked = held + slashed + released) over
// create -> lock -> activate -> downtime slash -> unlock, with locked amounts
// that are not a multiple of 1/SlashFractionDowntime.
func TestVerifReplay(t *testing.T) {
	ctl := gomock.NewController(t)
	defer ctl.Finish()

	k, ctx := keepertest.LockingKeeper(t, mock.NewMockAccountKeeper(ctl))

	now := time.Now().UTC()
	ctx = ctx.WithBlockTime(now).WithBlockHeight(10)

	nativeDenom := types.TokenDenom(common.Address{})
	goatDenom := types.TokenDenom(goattypes.GoatTokenContract)

	require.NoError(t, k.Tokens.Set(ctx, nativeDenom, types.Token{Weight: 1e4, Threshold: math.NewIntFromUint64(1e18)}))
	require.NoError(t, k.Tokens.Set(ctx, goatDenom, types.Token{Weight: 1, Threshold: math.ZeroInt()}))
	require.NoError(t, k.Threshold.Set(ctx, types.Threshold{
		List: sdk.NewCoins(sdk.NewCoin(nativeDenom, math.NewIntFromUint64(1e18))),
	}))
	require.NoError(t, k.EthTxQueue.Set(ctx, types.EthTxQueue{}))

	param := types.DefaultParams()
	param.SignedBlocksWindow = 3
	param.MaxMissedPerWindow = 1
	require.NoError(t, param.Validate())
	require.NoError(t, k.Params.Set(ctx, param))

	// a freshly created validator
	address := sdk.ConsAddress(common.Hex2Bytes("f0933654a540830e283b87bba9ff2eb16b5acd1d"))
	require.NoError(t, k.Validators.Set(ctx, address, types.Validator{
		Pubkey:    common.Hex2Bytes("03ac22905ded6095255f498cd5cb217b6ebf0d82c7df2c89bce6e9089dd51e6f50"),
		Reward:    math.ZeroInt(),
		GasReward: math.ZeroInt(),
		Status:    types.Pending,
	}))

	// lock amounts whose 2% share is not an integer
	nativeAmount := new(big.Int).SetUint64(2e18 + 7)
	goatAmount := new(big.Int).SetUint64(123_456_789)
	locked := sdk.NewCoins(
		sdk.NewCoin(nativeDenom, math.NewIntFromBigInt(nativeAmount)),
		sdk.NewCoin(goatDenom, math.NewIntFromBigInt(goatAmount)),
	)
	require.NoError(t, k.Lock(ctx, []*goattypes.LockRequest{
		{Validator: common.BytesToAddress(address), Token: common.Address{}, Amount: nativeAmount},
		{Validator: common.BytesToAddress(address), Token: goattypes.GoatTokenContract, Amount: goatAmount},
	}))

	check := func(stage string) {
		held, slashed, released := seedDemoBalance(t, k, ctx)
		total := held.Add(slashed...).Add(released...)
		require.Equal(t, locked.String(), total.String(),
			"%s: locked != held + slashed + released (held=%s slashed=%s released=%s)", stage, held, slashed, released)
	}
	check("after lock")

	// pending -> active
	_, err := k.EndBlocker(ctx)
	require.NoError(t, err)
	validator, err := k.Validators.Get(ctx, address)
	require.NoError(t, err)
	require.Equal(t, types.Active, validator.Status)
	check("after activation")

	// the validator misses a block and gets slashed for downtime
	downctx := ctx.WithBlockHeight(11).WithVoteInfos([]abci.VoteInfo{{
		Validator:   abci.Validator{Address: address, Power: int64(validator.Power)},
		BlockIdFlag: tmtypes.BlockIDFlagAbsent,
	}})
	require.NoError(t, k.HandleVoteInfos(downctx))
	validator, err = k.Validators.Get(ctx, address)
	require.NoError(t, err)
	require.Equal(t, types.Downgrade, validator.Status)
	check("after downtime slash")

	// it asks for everything back; the unlock is capped by what it still holds
	before := validator.Locking
	require.NoError(t, k.Unlock(ctx, []*goattypes.UnlockRequest{
		{Id: 1, Validator: common.BytesToAddress(address), Recipient: common.HexToAddress("0x01"), Token: common.Address{}, Amount: nativeAmount},
		{Id: 2, Validator: common.BytesToAddress(address), Recipient: common.HexToAddress("0x01"), Token: goattypes.GoatTokenContract, Amount: goatAmount},
	}))
	_, _, released := seedDemoBalance(t, k, ctx)
	require.True(t, before.IsAllGTE(released), "released more than held")
	require.True(t, locked.IsAllGTE(released), "released more than requested")
	check("after unlock")
}
