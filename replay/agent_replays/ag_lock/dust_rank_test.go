package keeper_test

import (
	"math/big"

	"cosmossdk.io/collections"
	"cosmossdk.io/math"
	"github.com/ethereum/go-ethereum/common"
	"github.com/ethereum/go-ethereum/core/types/goattypes"
	"github.com/goatnetwork/goat/x/locking/types"
)

// Replay of the counter-model of writesite.positive (lock): a pending validator with power 0 locks dust
// (amount*weight < 10^18) and is inserted into PowerRanking with power 0.
func (suite *KeeperTestSuite) TestVerifDustRankedWithZeroPower() {
	addr := suite.Address[0]
	v := types.Validator{Pubkey: suite.Validator[0].Pubkey, Power: 0, Reward: math.ZeroInt(), GasReward: math.ZeroInt(), Status: types.Pending}
	suite.Require().NoError(suite.Keeper.Validators.Set(suite.Context, addr, v))
	suite.Require().NoError(suite.Keeper.Tokens.Set(suite.Context, NativeTokenDenom, types.Token{Weight: 1, Threshold: math.ZeroInt()}))
	suite.Require().NoError(suite.Keeper.Threshold.Set(suite.Context, types.Threshold{}))

	reqs := []*goattypes.LockRequest{{Validator: common.BytesToAddress(addr), Token: NativeToken, Amount: big.NewInt(999999999999999999)}}
	suite.Require().NoError(suite.Keeper.Lock(suite.Context, reqs))

	got, err := suite.Keeper.Validators.Get(suite.Context, addr)
	suite.Require().NoError(err)
	suite.Require().Equal(uint64(0), got.Power)
	suite.Require().Equal(types.Pending, got.Status)
	has, err := suite.Keeper.PowerRanking.Has(suite.Context, collections.Join(uint64(0), addr))
	suite.Require().NoError(err)
	suite.T().Logf("PowerRanking has (0, validator) = %v", has)
	suite.Require().True(has, "expected the zero-power ranking entry (the finding)")

	// consequence at the end of the block: the zero-power candidate is promoted and reported to CometBFT with power 0
	suite.Require().NoError(suite.Keeper.Params.Set(suite.Context, types.DefaultParams()))
	updates, err := suite.Keeper.EndBlocker(suite.Context)
	suite.Require().NoError(err)
	for _, u := range updates {
		suite.T().Logf("validator update: power=%d", u.Power)
	}
	suite.Require().Len(updates, 1)
	suite.Require().Equal(int64(0), updates[0].Power)
	got, err = suite.Keeper.Validators.Get(suite.Context, addr)
	suite.Require().NoError(err)
	suite.Require().Equal(types.Active, got.Status)
}
