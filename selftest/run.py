#!/usr/bin/env python3
"""Self-test of the verification engine: every mutant (a small edit of /repo that compiles and
breaks a property) must make the named obligation fail.  Mutants are string replacements applied
to a scratch copy of /repo outside /repo and /verif; the copy is removed afterwards.
usage: run.py [Cxx ...] [--jobs N] [--keep]"""
import json, os, shutil, subprocess, sys, tempfile, concurrent.futures as cf

VERIF = os.path.dirname(os.path.dirname(os.path.abspath(__file__)))
REPO = os.environ.get("VERIF_REPO", "/repo")
ENV = dict(os.environ, GOFLAGS="-mod=mod", GOPROXY="off", GOSUMDB="off", GOTOOLCHAIN="local")

def run_mutant(m):
    d = tempfile.mkdtemp(prefix="verif-selftest-", dir="/var/tmp")
    try:
        subprocess.run(["rsync", "-a", "--exclude", ".git", REPO + "/", d + "/"], check=True)
        if m.get("patch"):
            # a seeded change kept under /verif/seeded (unified diff of non-test source files)
            pr = subprocess.run(["patch", "-p1", "-s", "-i", os.path.join(VERIF, m["patch"])], cwd=d, capture_output=True, text=True)
            if pr.returncode != 0:
                return (m, "STALE", "patch does not apply: " + (pr.stdout + pr.stderr)[-200:])
        for e in m["edits"]:
            p = os.path.join(d, e["file"])
            s = open(p).read()
            if s.count(e["old"]) != 1:
                return (m, "STALE", "pattern occurs %d times in %s" % (s.count(e["old"]), e["file"]))
            open(p, "w").write(s.replace(e["old"], e["new"]))
        b = subprocess.run(["go", "build", "./..."], cwd=d, env=ENV, capture_output=True, text=True)
        if b.returncode != 0:
            return (m, "NOBUILD", b.stderr[-400:])
        r = subprocess.run([os.path.join(VERIF, "bin/govc"), "check", m["property"], "--repo", d, "--work",
                            os.path.join(d, ".verifwork")], env=ENV, capture_output=True, text=True, timeout=1800)
        out = r.stdout + r.stderr
        hit = [l for l in out.splitlines() if l.startswith("VIOLATION") and ("obligation=" + m["expect"]) in l]
        if r.returncode == 1 and hit:
            return (m, "CAUGHT", hit[0].split("obligation=")[1])
        anyv = [l.split("obligation=")[1] for l in out.splitlines() if l.startswith("VIOLATION")]
        if r.returncode == 1 and anyv:
            return (m, "CAUGHT-OTHER", "; ".join(anyv))
        return (m, "MISSED", out[-600:])
    finally:
        shutil.rmtree(d, ignore_errors=True)

def main():
    args = [a for a in sys.argv[1:] if not a.startswith("--")]
    jobs = 4
    for i, a in enumerate(sys.argv):
        if a == "--jobs":
            jobs = int(sys.argv[i + 1]); args = [x for x in args if x != sys.argv[i + 1]]
    muts = json.load(open(os.path.join(VERIF, "selftest", "mutants.json")))
    if args:
        muts = [m for m in muts if m["property"] in args or m["name"] in args]
    bad = 0
    with cf.ThreadPoolExecutor(max_workers=jobs) as ex:
        for m, status, info in ex.map(run_mutant, muts):
            print("%-13s %-4s %-40s %s" % (status, m["property"], m["name"], info.replace("\n", " ")[:200]), flush=True)
            if status not in ("CAUGHT",) and not (status == "CAUGHT-OTHER" and m.get("any_ok")):
                bad += 1
    print("selftest: %d mutants, %d not caught as expected" % (len(muts), bad))
    sys.exit(1 if bad else 0)

if __name__ == "__main__":
    main()
