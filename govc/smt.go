package main

import (
	"fmt"
	"sort"
	"strings"
)

// ---------------------------------------------------------------------------
// SMT text helpers. Terms are plain s-expression strings.
// ---------------------------------------------------------------------------

func sx(op string, args ...string) string {
	if len(args) == 0 {
		return op
	}
	return "(" + op + " " + strings.Join(args, " ") + ")"
}

func and(xs ...string) string {
	var ys []string
	for _, x := range xs {
		if x == "true" || x == "" {
			continue
		}
		if x == "false" {
			return "false"
		}
		ys = append(ys, x)
	}
	switch len(ys) {
	case 0:
		return "true"
	case 1:
		return ys[0]
	}
	return sx("and", ys...)
}

func or(xs ...string) string {
	var ys []string
	for _, x := range xs {
		if x == "false" || x == "" {
			continue
		}
		if x == "true" {
			return "true"
		}
		ys = append(ys, x)
	}
	switch len(ys) {
	case 0:
		return "false"
	case 1:
		return ys[0]
	}
	return sx("or", ys...)
}

func not(x string) string {
	switch x {
	case "true":
		return "false"
	case "false":
		return "true"
	}
	if strings.HasPrefix(x, "(not ") && balanced(x[5:len(x)-1]) {
		return x[5 : len(x)-1]
	}
	return sx("not", x)
}

func balanced(s string) bool {
	d := 0
	for i := 0; i < len(s); i++ {
		switch s[i] {
		case '(':
			d++
		case ')':
			d--
			if d < 0 {
				return false
			}
		}
	}
	return d == 0
}

func implies(a, b string) string {
	if a == "true" {
		return b
	}
	if a == "false" || b == "true" {
		return "true"
	}
	return sx("=>", a, b)
}

func ite(c, a, b string) string {
	if c == "true" {
		return a
	}
	if c == "false" {
		return b
	}
	if a == b {
		return a
	}
	return sx("ite", c, a, b)
}

func eq(a, b string) string {
	if a == b {
		return "true"
	}
	return sx("=", a, b)
}

func num(n int64) string {
	if n < 0 {
		return fmt.Sprintf("(- %d)", -n)
	}
	return fmt.Sprintf("%d", n)
}

func isNumLit(s string) (int64, bool) {
	var n int64
	if _, err := fmt.Sscanf(s, "%d", &n); err == nil && fmt.Sprintf("%d", n) == s {
		return n, true
	}
	return 0, false
}

func add(a, b string) string {
	if x, ok := isNumLit(a); ok {
		if y, ok := isNumLit(b); ok && x+y >= 0 {
			return num(x + y)
		}
		if x == 0 {
			return b
		}
	}
	if y, ok := isNumLit(b); ok && y == 0 {
		return a
	}
	return sx("+", a, b)
}

func sub(a, b string) string {
	if y, ok := isNumLit(b); ok && y == 0 {
		return a
	}
	if x, ok := isNumLit(a); ok {
		if y, ok := isNumLit(b); ok && x-y >= 0 {
			return num(x - y)
		}
	}
	return sx("-", a, b)
}

// pow2 as decimal literal
func pow2(n int) string {
	// big enough for 64/256: use math/big
	return bigPow2(n)
}

// ---------------------------------------------------------------------------
// Prelude: declarations shared by all queries of a run, emitted on demand.
// ---------------------------------------------------------------------------

type declItem struct {
	name string
	text string
	// axioms belonging to this declaration: emitted only if the query mentions one of triggers
	deps []string
}

type Prelude struct {
	order []string
	items map[string]*declItem
	// axiom groups: emitted when any trigger occurs in the query
	axioms []axiomGroup
}

type axiomGroup struct {
	name     string
	triggers []string
	text     string
	needs    []string // declaration names that must be present
}

func newPrelude() *Prelude {
	return &Prelude{items: map[string]*declItem{}}
}

func (p *Prelude) has(name string) bool { _, ok := p.items[name]; return ok }

func (p *Prelude) declare(name, text string) {
	if _, ok := p.items[name]; ok {
		return
	}
	p.items[name] = &declItem{name: name, text: text}
	p.order = append(p.order, name)
}

func (p *Prelude) axiom(name string, triggers []string, text string) {
	for _, a := range p.axioms {
		if a.name == name {
			return
		}
	}
	p.axioms = append(p.axioms, axiomGroup{name: name, triggers: triggers, text: text})
}

// render emits every declaration (cheap: declarations only) and those axiom
// groups whose trigger symbol occurs in body.
func (p *Prelude) render(body string) string {
	var sb strings.Builder
	for _, n := range p.order {
		sb.WriteString(p.items[n].text)
		sb.WriteString("\n")
	}
	// axioms may mention symbols that trigger other axioms; iterate to a fixpoint
	included := map[string]bool{}
	text := body
	for changed := true; changed; {
		changed = false
		for _, a := range p.axioms {
			if included[a.name] {
				continue
			}
			for _, t := range a.triggers {
				if containsSym(text, t) {
					included[a.name] = true
					text += a.text
					changed = true
					break
				}
			}
		}
	}
	names := make([]string, 0, len(included))
	for _, a := range p.axioms {
		if included[a.name] {
			names = append(names, a.name)
			sb.WriteString(a.text)
			sb.WriteString("\n")
		}
	}
	sort.Strings(names)
	return sb.String()
}

func containsSym(text, sym string) bool {
	i := 0
	for {
		j := strings.Index(text[i:], sym)
		if j < 0 {
			return false
		}
		k := i + j
		e := k + len(sym)
		okL := k == 0 || strings.ContainsRune("( )\n", rune(text[k-1]))
		okR := e >= len(text) || strings.ContainsRune("( )\n", rune(text[e]))
		if okL && okR {
			return true
		}
		i = k + 1
	}
}
