package main

import (
	"fmt"
	"go/types"
	"regexp"
	"strings"

	"golang.org/x/tools/go/ssa"
)

var defResultRe = regexp.MustCompile(`\((?:define-fun-rec|define-fun|declare-fun)\s+([^\s()]+)\s+\((?:[^()]|\([^()]*\))*\)\s+([A-Za-z0-9_]+)`)

var collMethodRe = regexp.MustCompile(`^\(cosmossdk\.io/collections\.(Item|Map|KeySet|Sequence)\)\.([A-Za-z]+)$`)

// summaryRegistry: summaries added by the per-area files (summ_*.go) in their init functions.
// key: SSA function name with type arguments stripped (see stripGenerics), "ctx.<Method>" for context
// methods and "invoke:<iface path>.<Method>" for interface calls.
var summaryRegistry = map[string]func(x *Exec, s *State, args []*Val, resT types.Type) (*Val, bool){}

var errType = types.Universe.Lookup("error").Type()

// summary applies a built-in summary of a dependency (or hashing helper) function.
// Every summary used is recorded in the notes => listed under trusted_base in evidence.
func (x *Exec) summary(s *State, name string, fn *ssa.Function, args []*Val, resT types.Type, cont func(*State, *Val)) bool {
	B := types.Typ[types.Bool]
	ret := func(v *Val) bool {
		x.c.note("summary: " + name)
		cont(s, v)
		return true
	}
	if f, ok := summaryRegistry[name]; ok {
		if v, handled := f(x, s, args, resT); handled {
			return ret(v)
		}
	}
	if m := collMethodRe.FindStringSubmatch(name); m != nil {
		if v, ok := x.collCall(s, m[2], args, resT); ok {
			cont(s, v)
			return true
		}
		return false
	}
	switch name {
	case "bytes.Equal":
		return ret(&Val{T: B, S: eq(x.termOf(s, args[0]), x.termOf(s, args[1]))})
	case "bytes.HasPrefix", "strings.HasPrefix":
		return ret(&Val{T: B, S: sx("bprefix", x.termOf(s, args[1]), x.termOf(s, args[0]))})
	case modPath + "/pkg/crypto.DoubleSHA256Sum":
		return ret(&Val{T: resT, S: sx("dsha256", x.termOf(s, args[0]))})
	case modPath + "/pkg/crypto.Hash160Sum":
		return ret(&Val{T: resT, S: sx("hash160", x.termOf(s, args[0]))})
	case modPath + "/pkg/crypto.SHA256Sum":
		if t, ok := x.concatVarargs(s, args[0], func(e string) string { return e }); ok {
			return ret(&Val{T: resT, S: sx("sha256", t)})
		}
		x.c.P.declare("bconcat", fmt.Sprintf("(declare-fun bconcat (%s) Bytes)", x.c.sortOf(args[0].T)))
		return ret(&Val{T: resT, S: sx("sha256", sx("bconcat", x.termOf(s, args[0])))})
	case modPath + "/pkg/crypto.Uint64LE":
		if t, ok := x.concatVarargs(s, args[0], func(e string) string { return sx("le64", e) }); ok {
			return ret(&Val{T: resT, S: t})
		}
		return false
	case "slices.Concat":
		if t, ok := x.concatVarargs(s, args[0], func(e string) string { return e }); ok && x.c.sortOf(resT) == "Bytes" {
			return ret(&Val{T: resT, S: t})
		}
		return false
	case "cosmossdk.io/errors.Wrap", "cosmossdk.io/errors.Wrapf":
		return ret(x.errWrap(s, args[0]))
	case "errors.Is":
		x.c.P.declare("errIs", "(declare-fun errIs (Int Int) Bool)")
		a, b := args[0].S, args[1].S
		return ret(&Val{T: B, S: and(not(eq(a, "0")), or(eq(a, b), sx("errIs", a, b)))})
	case "github.com/cosmos/cosmos-sdk/types.UnwrapSDKContext":
		return ret(&Val{T: resT, Tag: &Tag{Kind: tagCtx}})
	case "github.com/kelindar/bitmap.FromBytes":
		// A-bitmap: the bitmap is a view of the byte string; panics unless the length is a multiple of 8
		x.bitmapDecls()
		b := x.termOf(s, args[0])
		x.panicIf(s, not(eq(sx("mod", sx("blen", b), "8"), "0")), "bitmap_length")
		bm := x.fresh(s, "bitmap", x.c.sortOf(resT))
		s.assume(eq(sx("bmsrc", bm), b))
		return ret(&Val{T: resT, S: bm})
	case "(github.com/kelindar/bitmap.Bitmap).Count":
		x.bitmapDecls()
		r := sx("bitcount", sx("bmsrc", x.termOf(s, args[0])))
		return ret(&Val{T: resT, S: r})
	case "(github.com/kelindar/bitmap.Bitmap).Contains":
		x.bitmapDecls()
		return ret(&Val{T: B, S: sx("bitat", sx("bmsrc", x.termOf(s, args[0])), args[1].S)})
	case "cosmossdk.io/collections.Join":
		ps := x.c.sortOf(resT)
		if !strings.HasPrefix(ps, "Pair_") {
			return false
		}
		return ret(&Val{T: resT, S: sx("mk_"+ps, x.termOf(s, args[0]), x.termOf(s, args[1]))})
	case "(cosmossdk.io/collections.Pair).K1", "(cosmossdk.io/collections.Pair).K2":
		ps := x.c.sortOf(args[0].T)
		if !strings.HasPrefix(ps, "Pair_") {
			return false
		}
		acc := "k1_"
		if strings.HasSuffix(name, "K2") {
			acc = "k2_"
		}
		t := sx(acc+ps, x.termOf(s, args[0]))
		x.assumeInv(s, resT, t)
		return ret(x.valOf(s, resT, t))
	case "encoding/hex.EncodeToString":
		x.c.P.declare("hexenc", "(declare-fun hexenc (Bytes) Bytes)")
		x.c.P.axiom("hexenc_ax", []string{"hexenc"}, "(assert (forall ((a Bytes) (b Bytes)) (! (=> (= (hexenc a) (hexenc b)) (= a b)) :pattern ((hexenc a) (hexenc b)))))\n(assert (forall ((a Bytes)) (! (= (blen (hexenc a)) (* 2 (blen a))) :pattern ((hexenc a)))))")
		return ret(&Val{T: resT, S: sx("hexenc", x.termOf(s, args[0]))})
	case "math.Ceil":
		return ret(&Val{T: resT, S: sx("fp.roundToIntegral", "RTP", args[0].S)})
	case "(*bytes.Reader).Len":
		// remaining bytes of a reader over b after a parse: uninterpreted function of the reader
		x.c.P.declare("rdlen", "(declare-fun rdlen (Int) Int)")
		r := sx("rdlen", x.termOf(s, args[0]))
		s.assume(sx(">=", r, "0"))
		return ret(&Val{T: resT, S: r})
	}
	if strings.HasPrefix(name, "(github.com/cosmos/cosmos-sdk/types.Context).") || strings.HasPrefix(name, "ctx.") {
		m := name[strings.LastIndex(name, ".")+1:]
		if v := x.ctxMethod(s, m, args, resT); v != nil {
			return ret(v)
		}
	}
	return false
}

func (x *Exec) errWrap(s *State, e *Val) *Val {
	x.c.P.declare("errwrap", "(declare-fun errwrap (Int) Int)")
	x.c.P.declare("errIs", "(declare-fun errIs (Int Int) Bool)")
	x.c.P.axiom("errwrap_ax", []string{"errwrap"}, "(assert (forall ((e Int)) (! (and (= (= (errwrap e) 0) (= e 0)) (=> (not (= e 0)) (errIs (errwrap e) e))) :pattern ((errwrap e)))))")
	return &Val{T: errType, S: sx("errwrap", e.S)}
}

// concatVarargs: for a variadic slice of statically known small length, the concatenation of f(elem).
func (x *Exec) concatVarargs(s *State, v *Val, f func(string) string) (string, bool) {
	if v.SRef == nil {
		return "", false
	}
	k, ok := isNumLit(v.SRef.Len)
	if !ok || k > 16 {
		return "", false
	}
	if k == 0 {
		return "bempty", true
	}
	ot := s.objs[v.SRef.Obj]
	srt := x.objMeta[v.SRef.Obj].Sort
	var t string
	for i := int64(0); i < k; i++ {
		el := f(sx("select", sx("arr_"+srt, ot), add(add(sx("off_"+srt, ot), v.SRef.Off), num(i))))
		if i == 0 {
			t = el
		} else {
			t = sx("bcat", t, el)
		}
	}
	return t, true
}

func (x *Exec) ctxConst(name, sort string) string {
	n := "ctx." + name
	x.c.P.declare(n, fmt.Sprintf("(declare-const %s %s)", n, sort))
	return n
}

func (x *Exec) ctxMethod(s *State, m string, args []*Val, resT types.Type) *Val {
	switch m {
	case "ChainID":
		return &Val{T: resT, S: x.ctxConst("ChainID", "Bytes")}
	case "BlockHeight":
		c := x.ctxConst("BlockHeight", "Int")
		s.assume(intRange(types.Typ[types.Int64], c))
		return &Val{T: resT, S: c}
	case "BlockTime":
		return &Val{T: resT, S: x.ctxConst("BlockTime", "Int")}
	case "HeaderHash":
		return &Val{T: resT, S: x.ctxConst("HeaderHash", "Bytes")}
	case "ExecMode":
		c := x.ctxConst("ExecMode", "Int")
		s.assume(and(sx("<=", "0", c), sx("<", c, "256")))
		return &Val{T: resT, S: c}
	case "VoteInfos":
		// the votes of the previous block: a fixed (per context) list, A-comet
		srt := x.c.sortOf(resT)
		c := x.ctxConst("VoteInfos", srt)
		x.assumeInv(s, resT, c)
		return x.valOf(s, resT, c)
	case "EventManager", "Logger":
		return &Val{T: resT, Tag: &Tag{Kind: tagOpaque, Field: m}}
	case "Value", "Done", "Err", "Deadline":
		return nil
	}
	return nil
}

func (x *Exec) bitmapDecls() {
	srt := x.c.slcSort("Int")
	x.c.P.declare("bmsrc", fmt.Sprintf("(declare-fun bmsrc (%s) Bytes)", srt))
	declBitFuns(x.c)
}

// bit-string functions shared by the bitmap summary and the contracts of C01:
// bitat(b, p): bit p of b (little-endian words); countTo(b, n): number of set bits at positions < n;
// bitcount(b): number of set bits.
func declBitFuns(c *Ctx) {
	c.P.declare("bitat", "(declare-fun bitat (Bytes Int) Bool)")
	c.P.axiom("bitfuns", []string{"bitat", "countTo", "bitcount"},
		"(assert (forall ((b Bytes) (p Int)) (! (=> (bitat b p) (and (<= 0 p) (< p (* 8 (blen b))))) :pattern ((bitat b p)))))\n"+
			"(define-fun-rec countTo ((b Bytes) (n Int)) Int (ite (<= n 0) 0 (+ (countTo b (- n 1)) (ite (bitat b (- n 1)) 1 0))))\n"+
			// bitcount(b) is by definition countTo(b, 8*len(b)); the definition is not needed by any proof and is kept
			// out of the queries (unfolding it at a symbolic length sends the solvers into unbounded recursion).
			"(declare-fun bitcount (Bytes) Int)\n"+
			"(assert (forall ((b Bytes)) (! (and (<= 0 (bitcount b)) (<= (bitcount b) (* 8 (blen b)))) :pattern ((bitcount b)))))")
}
