package main

import (
	"fmt"
	"go/ast"
	"go/constant"
	"go/parser"
	"go/token"
	"go/types"
	"os"
	"regexp"
	"strconv"
	"strings"

	"golang.org/x/tools/go/ssa"
)

// ---------------------------------------------------------------------------
// Specification expressions: Go expression syntax, evaluated to SMT over the
// symbolic state. Arithmetic in specifications is mathematical (no wrap-around).
// ---------------------------------------------------------------------------

type SpecEnv struct {
	x      *Exec
	s      *State            // state in which loads are evaluated
	old    *SpecEnv          // environment for old(...)
	vars   map[string]*Val   // identifiers
	bound  map[string]string // quantifier-bound variables
	pkg    *types.Package
	where  string
	err    error
	lets   [][2]string
	boundB map[string]bool
}

// preprocessSpec turns "A ==> B" into implies(A, B) (right associative, lowest precedence) at every
// parenthesis level and inside call arguments.
func preprocessSpec(e string) string {
	// first rewrite the insides of every top-level bracket group
	var sb strings.Builder
	d := 0
	start := -1
	for i := 0; i < len(e); i++ {
		c := e[i]
		if c == '"' {
			j := i + 1
			for j < len(e) && e[j] != '"' {
				if e[j] == '\\' {
					j++
				}
				j++
			}
			if d == 0 {
				sb.WriteString(e[i:min(j+1, len(e))])
			}
			i = j
			continue
		}
		switch c {
		case '(', '[':
			if d == 0 {
				sb.WriteByte(c)
				start = i + 1
			}
			d++
		case ')', ']':
			d--
			if d == 0 {
				inner := e[start:i]
				// split on top-level commas
				var parts []string
				dd, last := 0, 0
				for k := 0; k < len(inner); k++ {
					switch inner[k] {
					case '(', '[', '{':
						dd++
					case ')', ']', '}':
						dd--
					case ',':
						if dd == 0 {
							parts = append(parts, inner[last:k])
							last = k + 1
						}
					}
				}
				parts = append(parts, inner[last:])
				for k, p := range parts {
					if k > 0 {
						sb.WriteByte(',')
					}
					sb.WriteString(preprocessSpec(p))
				}
				sb.WriteByte(c)
			}
		default:
			if d == 0 {
				sb.WriteByte(c)
			}
		}
	}
	t := sb.String()
	// now split this level at the first top-level ==>
	d = 0
	for i := 0; i+2 < len(t); i++ {
		switch t[i] {
		case '(', '[', '{':
			d++
		case ')', ']', '}':
			d--
		case '"':
			j := i + 1
			for j < len(t) && t[j] != '"' {
				j++
			}
			i = j
		case '=':
			if d == 0 && t[i:i+3] == "==>" {
				return "implies(" + t[:i] + ", " + preprocessSpec(t[i+3:]) + ")"
			}
		}
	}
	return t
}

func (x *Exec) evalSpec(env *SpecEnv, expr string) (term string, err error) {
	defer func() {
		if r := recover(); r != nil {
			if se, ok := r.(specErr); ok {
				err = fmt.Errorf("%s: in %q: %s", env.where, expr, string(se))
				return
			}
			panic(r)
		}
	}()
	expr = env.expandLets(expr)
	saveSink := x.specSink
	x.specSink = env.s
	defer func() { x.specSink = saveSink }()
	e, perr := parser.ParseExpr(preprocessSpec(expr))
	if perr != nil {
		return "", fmt.Errorf("%s: cannot parse %q: %v", env.where, expr, perr)
	}
	v := env.eval(e)
	t := env.term(v)
	return t, nil
}

// expandLets applies the contract's textual macros (//@ let name = expr), later ones may use earlier ones.
func (env *SpecEnv) expandLets(expr string) string {
	lets := env.lets
	for i := len(lets) - 1; i >= 0; i-- {
		re := regexp.MustCompile(`\b` + regexp.QuoteMeta(lets[i][0]) + `\b`)
		expr = re.ReplaceAllStringFunc(expr, func(string) string { return "(" + lets[i][1] + ")" })
	}
	return expr
}

type specErr string

func (env *SpecEnv) failf(format string, a ...any) {
	panic(specErr(fmt.Sprintf(format, a...)))
}

func (env *SpecEnv) term(v *Val) string {
	if v == nil {
		env.failf("void value")
	}
	if v.Tag != nil && v.Tag.Kind == tagColl {
		// a bare Sequence/Item reference used as a value
		return env.collValue(v).S
	}
	return env.x.termOf(env.s, v)
}

var mathInt = types.Typ[types.UntypedInt]

func (env *SpecEnv) eval(e ast.Expr) *Val {
	x := env.x
	switch e := e.(type) {
	case *ast.ParenExpr:
		return env.eval(e.X)
	case *ast.BasicLit:
		switch e.Kind {
		case token.INT:
			cv := constant.MakeFromLiteral(e.Value, token.INT, 0)
			return &Val{T: mathInt, S: cv.ExactString()}
		case token.FLOAT:
			cv := constant.MakeFromLiteral(e.Value, token.FLOAT, 0)
			if iv := constant.ToInt(cv); iv.Kind() == constant.Int {
				return &Val{T: mathInt, S: iv.ExactString()}
			}
			env.failf("non-integer literal %s", e.Value)
		case token.STRING:
			sv, _ := strconv.Unquote(e.Value)
			return &Val{T: types.Typ[types.String], S: x.c.strLit(sv)}
		}
		env.failf("unsupported literal %s", e.Value)
	case *ast.Ident:
		return env.ident(e.Name)
	case *ast.UnaryExpr:
		v := env.eval(e.X)
		switch e.Op {
		case token.NOT:
			return &Val{T: types.Typ[types.Bool], S: not(env.term(v))}
		case token.SUB:
			return &Val{T: mathInt, S: sx("-", env.term(v))}
		}
		env.failf("unsupported unary %s", e.Op)
	case *ast.BinaryExpr:
		return env.binary(e)
	case *ast.SelectorExpr:
		return env.selector(e)
	case *ast.IndexExpr:
		return env.index(e)
	case *ast.SliceExpr:
		v := env.eval(e.X)
		t := env.term(v)
		if x.c.sortOf(v.T) != "Bytes" {
			srt := x.c.sortOf(v.T)
			lo, hi := "0", sx("len_"+srt, t)
			if e.Low != nil {
				lo = env.term(env.eval(e.Low))
			}
			if e.High != nil {
				hi = env.term(env.eval(e.High))
			}
			return &Val{T: v.T, S: sx("mk_"+srt, sx("arr_"+srt, t), add(sx("off_"+srt, t), lo), sub(hi, lo))}
		}
		lo, hi := "0", sx("blen", t)
		if e.Low != nil {
			lo = env.term(env.eval(e.Low))
		}
		if e.High != nil {
			hi = env.term(env.eval(e.High))
		}
		return &Val{T: v.T, S: sx("bsub", t, lo, hi)}
	case *ast.CallExpr:
		return env.call(e)
	case *ast.StarExpr:
		v := env.eval(e.X)
		if v.Ptr == nil {
			env.failf("deref of non-pointer")
		}
		return x.load(env.s, v.Ptr)
	}
	env.failf("unsupported spec expression %T", e)
	return nil
}

func (env *SpecEnv) ident(name string) *Val {
	switch name {
	case "true", "false":
		return &Val{T: types.Typ[types.Bool], S: name}
	case "nil":
		return &Val{T: types.Typ[types.UntypedNil], S: "nil"}
	case "st":
		return &Val{T: nil, Tag: &Tag{Kind: tagOpaque, Module: "", Field: "st"}}
	}
	if b, ok := env.bound[name]; ok {
		if env.boundB[b] {
			return &Val{T: types.NewSlice(types.Typ[types.Uint8]), S: b}
		}
		return &Val{T: mathInt, S: b}
	}
	if v, ok := env.vars[name]; ok {
		return v
	}
	if c, ok := env.x.cs.Consts[name]; ok {
		return &Val{T: mathInt, S: c}
	}
	// package-level constant of the function's package
	if env.pkg != nil {
		if obj := env.pkg.Scope().Lookup(name); obj != nil {
			if c, ok := obj.(*types.Const); ok {
				return env.constVal(c)
			}
		}
	}
	env.failf("unknown identifier %q", name)
	return nil
}

func (env *SpecEnv) constVal(c *types.Const) *Val {
	switch c.Val().Kind() {
	case constant.Int:
		return &Val{T: mathInt, S: smtInt(c.Val().ExactString())}
	case constant.Float:
		if iv := constant.ToInt(c.Val()); iv.Kind() == constant.Int {
			return &Val{T: mathInt, S: smtInt(iv.ExactString())}
		}
	case constant.String:
		return &Val{T: types.Typ[types.String], S: env.x.c.strLit(constant.StringVal(c.Val()))}
	case constant.Bool:
		return &Val{T: types.Typ[types.Bool], S: fmt.Sprint(constant.BoolVal(c.Val()))}
	}
	env.failf("unsupported constant %s", c.Name())
	return nil
}

func smtInt(s string) string {
	if strings.HasPrefix(s, "-") {
		return "(- " + s[1:] + ")"
	}
	return s
}

func (env *SpecEnv) binary(e *ast.BinaryExpr) *Val {
	x := env.x
	a := env.eval(e.X)
	b := env.eval(e.Y)
	B := types.Typ[types.Bool]
	switch e.Op {
	case token.LAND:
		return &Val{T: B, S: and(env.term(a), env.term(b))}
	case token.LOR:
		return &Val{T: B, S: or(env.term(a), env.term(b))}
	case token.EQL, token.NEQ:
		var t string
		switch {
		case a.S == "nil" && a.T == types.Typ[types.UntypedNil]:
			t = env.nilTest(b)
		case b.S == "nil" && b.T == types.Typ[types.UntypedNil]:
			t = env.nilTest(a)
		default:
			t = eq(env.term(a), env.term(b))
		}
		if e.Op == token.NEQ {
			t = not(t)
		}
		return &Val{T: B, S: t}
	}
	at, bt := env.term(a), env.term(b)
	if x.c.sortOf(nz(a.T)) == "Bytes" && e.Op == token.ADD {
		return &Val{T: a.T, S: sx("bcat", at, bt)}
	}
	switch e.Op {
	case token.ADD:
		return &Val{T: mathInt, S: add(at, bt)}
	case token.SUB:
		return &Val{T: mathInt, S: sub(at, bt)}
	case token.MUL:
		return &Val{T: mathInt, S: sx("*", at, bt)}
	case token.QUO:
		return &Val{T: mathInt, S: sx("div", at, bt)}
	case token.REM:
		return &Val{T: mathInt, S: sx("mod", at, bt)}
	case token.LSS:
		return &Val{T: B, S: sx("<", at, bt)}
	case token.LEQ:
		return &Val{T: B, S: sx("<=", at, bt)}
	case token.GTR:
		return &Val{T: B, S: sx(">", at, bt)}
	case token.GEQ:
		return &Val{T: B, S: sx(">=", at, bt)}
	}
	env.failf("unsupported binary %s", e.Op)
	return nil
}

func nz(t types.Type) types.Type {
	if t == nil {
		return mathInt
	}
	return t
}

func (env *SpecEnv) nilTest(v *Val) string {
	if v.Tag != nil {
		env.failf("nil test on state reference")
	}
	return env.x.nilCond(env.s, v)
}

// selector: field access with automatic dereference; state references.
func (env *SpecEnv) selector(e *ast.SelectorExpr) *Val {
	x := env.x
	// package-qualified constant?
	if id, ok := e.X.(*ast.Ident); ok {
		if _, isVar := env.vars[id.Name]; !isVar && id.Name != "st" && env.bound[id.Name] == "" {
			if c := env.pkgConst(id.Name, e.Sel.Name); c != nil {
				return c
			}
		}
	}
	v := env.eval(e.X)
	name := e.Sel.Name
	if v.Tag != nil {
		switch {
		case v.Tag.Field == "st" && v.Tag.Module == "":
			return &Val{Tag: &Tag{Kind: tagOpaque, Module: name, Field: "stmod"}}
		case v.Tag.Field == "stmod":
			ct := x.collType(v.Tag.Module, name)
			if ct == nil {
				env.failf("no collection %s in keeper of module %s", name, v.Tag.Module)
			}
			return &Val{T: ct, Tag: &Tag{Kind: tagColl, Module: v.Tag.Module, Field: name, T: ct}, St: env.s}
		case v.Tag.Kind == tagColl:
			// field of an Item's value
			return env.field(env.collValue(v), name)
		}
		env.failf("selector %s on opaque token", name)
	}
	return env.field(v, name)
}

func (env *SpecEnv) field(v *Val, name string) *Val {
	x := env.x
	T := v.T
	if T == nil {
		env.failf("field %s of untyped value", name)
	}
	if p, ok := T.Underlying().(*types.Pointer); ok {
		if v.Ptr == nil {
			env.failf("field %s through non-lvalue pointer", name)
		}
		u, ok := p.Elem().Underlying().(*types.Struct)
		if !ok {
			env.failf("field %s of non-struct pointer", name)
		}
		for i := 0; i < u.NumFields(); i++ {
			if u.Field(i).Name() == name {
				return x.load(env.s, v.Ptr.ext(Step{Kind: stField, Field: i}))
			}
		}
		env.failf("no field %s in %s", name, p.Elem())
	}
	u, ok := T.Underlying().(*types.Struct)
	if !ok {
		env.failf("field %s of non-struct %s", name, T)
	}
	for i := 0; i < u.NumFields(); i++ {
		if u.Field(i).Name() == name {
			t, nt := x.stepTerm(T, env.term(v), Step{Kind: stField, Field: i})
			return x.valOf(env.s, nt, t)
		}
	}
	env.failf("no field %s in %s", name, T)
	return nil
}

func (env *SpecEnv) pkgConst(pkgName, name string) *Val {
	// resolve the qualifier like the package's own source does: import alias or package name
	var cands []*types.Package
	if env.pkg != nil {
		if path, ok := env.x.prog.importPath(env.pkg.Path(), pkgName); ok {
			for _, imp := range env.pkg.Imports() {
				if imp.Path() == path {
					cands = append(cands, imp)
				}
			}
		}
	}
	if len(cands) == 0 {
		for _, p := range env.x.prog.SSA.AllPackages() {
			if p.Pkg.Name() == pkgName && (env.pkg == nil || importsOrIs(env.pkg, p.Pkg)) {
				cands = append(cands, p.Pkg)
			}
		}
	}
	var found *Val
	n := 0
	for _, p := range cands {
		if obj := p.Scope().Lookup(name); obj != nil {
			if c, ok := obj.(*types.Const); ok {
				found = env.constVal(c)
				n++
			}
		}
	}
	if n > 1 {
		env.failf("ambiguous constant %s.%s (use the import alias of the source file)", pkgName, name)
	}
	return found
}

func importsOrIs(a, b *types.Package) bool {
	if a == b {
		return true
	}
	for _, i := range a.Imports() {
		if i == b {
			return true
		}
	}
	return false
}

func (env *SpecEnv) index(e *ast.IndexExpr) *Val {
	x := env.x
	v := env.eval(e.X)
	k := env.eval(e.Index)
	if v.Tag != nil && v.Tag.Kind == tagColl {
		ci := x.collInfo(v.Tag)
		if ci.Kind != "Map" {
			env.failf("index on non-map collection %s", v.Tag.Field)
		}
		val := x.stGet(env.stOf(v), ci.Name+".val", fmt.Sprintf("(Array %s %s)", ci.KSort, ci.VSort))
		t := sx("select", val, env.keyTerm(ci, k))
		return x.valOf(env.s, ci.V, t)
	}
	if v.Ptr != nil {
		if _, ok := v.T.Underlying().(*types.Map); ok {
			mt := v.T.Underlying().(*types.Map)
			ms := x.mapSort(mt)
			cur := x.loadTerm(env.s, v.Ptr)
			return x.valOf(env.s, mt.Elem(), sx("select", sx("val_"+ms, cur), env.term(k)))
		}
	}
	if v.T == nil {
		env.failf("index on untyped value")
	}
	t := env.term(v)
	r, nt := x.stepTerm(v.T, t, Step{Kind: stIndex, Idx: env.term(k)})
	if nt == nil {
		env.failf("index on %s", v.T)
	}
	return x.valOf(env.s, nt, r)
}

func (env *SpecEnv) keyTerm(ci *CollInfo, k *Val) string {
	return env.term(k)
}

// collValue: the value stored in an Item or Sequence.
func (env *SpecEnv) stOf(v *Val) *State {
	if v.St != nil {
		return v.St
	}
	return env.s
}

func (env *SpecEnv) collValue(v *Val) *Val {
	x := env.x
	ci := x.collInfo(v.Tag)
	if v.St != nil && v.St != env.s {
		e2 := *env
		e2.s = v.St
		nv := *v
		nv.St = nil
		return e2.collValue(&nv)
	}
	switch ci.Kind {
	case "Item":
		return x.valOf(env.s, ci.V, x.stGet(env.s, ci.Name+".val", ci.VSort))
	case "Sequence":
		return &Val{T: types.Typ[types.Uint64], S: x.stGet(env.s, ci.Name+".val", "Int")}
	}
	env.failf("collection %s used as a value", v.Tag.Field)
	return nil
}

func (env *SpecEnv) call(e *ast.CallExpr) *Val {
	x := env.x
	B := types.Typ[types.Bool]
	if id, ok := e.Fun.(*ast.Ident); ok {
		switch id.Name {
		case "old":
			if env.old == nil {
				// already evaluating in the entry state: old is idempotent
				return env.eval(e.Args[0])
			}
			o := *env.old
			o.bound = env.bound
			o.boundB = env.boundB
			return o.eval(e.Args[0])
		case "len":
			v := env.eval(e.Args[0])
			if v.Tag != nil {
				env.failf("len of collection")
			}
			lt := x.sliceLen(env.s, v)
			// type invariant of every Go slice/string value, also of values only the specification reads
			// (e.g. a queue in the entry state that the function never loads itself)
			closed := strings.HasPrefix(lt, "(")
			for _, bv := range env.bound {
				if strings.Contains(lt, bv) {
					closed = false
				}
			}
			for bv := range env.boundB {
				if strings.Contains(lt, bv) {
					closed = false
				}
			}
			if closed {
				sink := env.s
				if x.specSink != nil {
					sink = x.specSink
				}
				sink.assume(and(sx(">=", lt, "0"), sx("<", lt, pow2(63))))
			}
			return &Val{T: mathInt, S: lt}
		case "implies":
			return &Val{T: B, S: implies(env.term(env.eval(e.Args[0])), env.term(env.eval(e.Args[1])))}
		case "iff":
			return &Val{T: B, S: eq(env.term(env.eval(e.Args[0])), env.term(env.eval(e.Args[1])))}
		case "ite":
			a := env.eval(e.Args[1])
			return &Val{T: a.T, S: ite(env.term(env.eval(e.Args[0])), env.term(a), env.term(env.eval(e.Args[2])))}
		case "forall", "exists":
			// forall(i, lo, hi, body)
			iv, ok := e.Args[0].(*ast.Ident)
			if !ok || len(e.Args) != 4 {
				env.failf("forall(i, lo, hi, body) expected")
			}
			lo, hi := env.term(env.eval(e.Args[1])), env.term(env.eval(e.Args[2]))
			bn := fmt.Sprintf("%s!q%d", iv.Name, len(env.bound))
			nb := map[string]string{}
			for k, v := range env.bound {
				nb[k] = v
			}
			nb[iv.Name] = bn
			ne := *env
			ne.bound = nb
			if ne.old != nil {
				o := *ne.old
				o.bound = nb
				ne.old = &o
			}
			// facts produced while evaluating the body (type invariants of loaded values) may mention the
			// bound variable: they become guards inside the quantifier instead of path assumptions
			type mark struct {
				st   *State
				base int
			}
			marks := []mark{{ne.s, len(ne.s.pc)}}
			if ne.old != nil && ne.old.s != ne.s {
				marks = append(marks, mark{ne.old.s, len(ne.old.s.pc)})
			}
			body := ne.term(ne.eval(e.Args[3]))
			var guards []string
			for _, m := range marks {
				var keep []string
				var keepb []bool
				for i := m.base; i < len(m.st.pc); i++ {
					if containsSym(m.st.pc[i], bn) {
						guards = append(guards, m.st.pc[i])
					} else {
						keep = append(keep, m.st.pc[i])
						keepb = append(keepb, m.st.pcb[i])
					}
				}
				m.st.pc = append(m.st.pc[:m.base:m.base], keep...)
				m.st.pcb = append(m.st.pcb[:m.base:m.base], keepb...)
			}
			// the facts are type invariants of program values (true, but not derivable inside the logic): they are
			// simply dropped under binders — the clause is used exactly as written in the contract
			_ = guards
			rng := and(sx("<=", lo, bn), sx("<", bn, hi))
			if id.Name == "forall" {
				return &Val{T: B, S: fmt.Sprintf("(forall ((%s Int)) %s)", bn, implies(rng, body))}
			}
			return &Val{T: B, S: fmt.Sprintf("(exists ((%s Int)) %s)", bn, and(rng, body))}
		case "forallb":
			// forallb(d, body): for every byte string d (e.g. every token denomination)
			iv, ok := e.Args[0].(*ast.Ident)
			if !ok || len(e.Args) != 2 {
				env.failf("forallb(d, body) expected")
			}
			bn := fmt.Sprintf("%s!q%d", iv.Name, len(env.bound))
			nb := map[string]string{}
			for k, v := range env.bound {
				nb[k] = v
			}
			nb[iv.Name] = bn
			nbb := map[string]bool{bn: true}
			for k, v := range env.boundB {
				nbb[k] = v
			}
			ne := *env
			ne.bound, ne.boundB = nb, nbb
			if ne.old != nil {
				o := *ne.old
				o.bound, o.boundB = nb, nbb
				ne.old = &o
			}
			body := ne.term(ne.eval(e.Args[1]))
			return &Val{T: B, S: fmt.Sprintf("(forall ((%s Bytes)) %s)", bn, body)}
		case "amt":
			// amt(coins, denom): amount of a denomination in an sdk.Coins value
			x.coinSorts()
			return &Val{T: mathInt, S: sx("coins.amt", env.term(env.eval(e.Args[0])), env.term(env.eval(e.Args[1])))}
		case "has":
			v := env.eval(e.Args[0])
			if v.Tag != nil && v.Tag.Kind == tagColl {
				ci := x.collInfo(v.Tag)
				switch ci.Kind {
				case "Item":
					return &Val{T: B, S: x.stGet(env.stOf(v), ci.Name+".has", "Bool")}
				case "Map", "KeySet":
					k := env.eval(e.Args[1])
					dom := x.stGet(env.stOf(v), ci.Name+".dom", fmt.Sprintf("(Array %s Bool)", ci.KSort))
					return &Val{T: B, S: sx("select", dom, env.keyTerm(ci, k))}
				}
			}
			if v.Ptr != nil {
				if mt, ok := v.T.Underlying().(*types.Map); ok {
					ms := x.mapSort(mt)
					return &Val{T: B, S: sx("select", sx("dom_"+ms, x.loadTerm(env.s, v.Ptr)), env.term(env.eval(e.Args[1])))}
				}
			}
			env.failf("has() on unsupported value")
		case "unchanged":
			// unchanged(st.mod.Field): every component equals its entry value
			v := env.eval(e.Args[0])
			if v.Tag == nil || v.Tag.Kind != tagColl || env.old == nil {
				env.failf("unchanged(st.module.Collection) expected")
			}
			ci := x.collInfo(v.Tag)
			var cs []string
			for _, comp := range ci.components() {
				cs = append(cs, eq(x.stGet(env.s, comp.name, comp.sort), x.stGet(env.old.s, comp.name, comp.sort)))
			}
			return &Val{T: B, S: and(cs...)}
		case "mapval", "mapdom":
			v := env.eval(e.Args[0])
			if v.Tag == nil || v.Tag.Kind != tagColl {
				env.failf("mapval(st.module.Map) expected")
			}
			ci := x.collInfo(v.Tag)
			if id.Name == "mapdom" {
				return &Val{T: nil, S: x.stGet(env.stOf(v), ci.Name+".dom", fmt.Sprintf("(Array %s Bool)", ci.KSort))}
			}
			return &Val{T: nil, S: x.stGet(env.stOf(v), ci.Name+".val", fmt.Sprintf("(Array %s %s)", ci.KSort, ci.VSort))}
		case "voteinfos":
			T := x.voteInfosType()
			if T == nil {
				env.failf("VoteInfo type not found")
			}
			return x.valOf(env.s, T, x.ctxConst("VoteInfos", x.c.sortOf(T)))
		case "chainid":
			return &Val{T: types.Typ[types.String], S: x.ctxConst("ChainID", "Bytes")}
		case "blocktime":
			return &Val{T: mathInt, S: x.ctxConst("BlockTime", "Int")}
		case "blockheight":
			return &Val{T: mathInt, S: x.ctxConst("BlockHeight", "Int")}
		case "arr", "off":
			v := env.eval(e.Args[0])
			srt := x.c.sortOf(nz(v.T))
			if !strings.HasPrefix(srt, "Slc_") {
				env.failf("%s() of a non-slice", id.Name)
			}
			return &Val{T: mathInt, S: sx(id.Name+"_"+srt, env.term(v))}
		case "pair":
			a, b := env.eval(e.Args[0]), env.eval(e.Args[1])
			ps := x.pairSort(x.c.sortOf(nz(a.T)), x.c.sortOf(nz(b.T)))
			return &Val{T: nil, S: sx("mk_"+ps, env.term(a), env.term(b))}
		case "int":
			return env.eval(e.Args[0])
		case "bytes", "string":
			return env.eval(e.Args[0])
		}
		// a function of the package under verification (side-effect free): evaluated symbolically
		if env.pkg != nil {
			if obj, ok := env.pkg.Scope().Lookup(id.Name).(*types.Func); ok {
				if fn := x.prog.SSA.FuncValue(obj); fn != nil {
					var args []*Val
					for _, a := range e.Args {
						args = append(args, env.eval(a))
					}
					return x.evalPure(env.s, fn, args)
				}
			}
		}
		// user-defined SMT function / summary function
		var as []string
		for _, a := range e.Args {
			as = append(as, env.term(env.eval(a)))
		}
		rt := x.smtFunResult(id.Name)
		return &Val{T: rt, S: sx(id.Name, as...)}
	}
	// method call or package-qualified function
	if sel, ok := e.Fun.(*ast.SelectorExpr); ok {
		if pid, ok := sel.X.(*ast.Ident); ok && env.pkg != nil {
			if _, isVar := env.vars[pid.Name]; !isVar && env.bound[pid.Name] == "" && pid.Name != "st" {
				if path, ok := x.prog.importPath(env.pkg.Path(), pid.Name); ok {
					for _, imp := range env.pkg.Imports() {
						if imp.Path() != path {
							continue
						}
						if obj, ok := imp.Scope().Lookup(sel.Sel.Name).(*types.Func); ok {
							if fn := x.prog.SSA.FuncValue(obj); fn != nil && len(fn.Blocks) > 0 {
								var args []*Val
								for _, a := range e.Args {
									args = append(args, env.eval(a))
								}
								return x.evalPure(env.s, fn, args)
							}
						}
					}
				}
			}
		}
		recv := env.eval(sel.X)
		var args []*Val
		for _, a := range e.Args {
			args = append(args, env.eval(a))
		}
		return env.method(recv, sel.Sel.Name, args)
	}
	env.failf("unsupported call")
	return nil
}

func (env *SpecEnv) method(recv *Val, name string, args []*Val) *Val {
	x := env.x
	if recv.T == nil {
		env.failf("method %s on untyped value", name)
	}
	if _, isIfc := recv.T.Underlying().(*types.Interface); isIfc && recv.Dyn == nil {
		it := namedPath(recv.T)
		m := lookupIfaceMethod(recv.T, name)
		if m == nil {
			env.failf("no method %s on %s", name, it)
		}
		return x.pureIfaceCall(env.s, it, name, recv, args, m.Type().(*types.Signature).Results().At(0).Type())
	}
	r := recv
	if recv.Dyn != nil {
		r = recv.Dyn
	}
	ms := x.prog.SSA.MethodSets.MethodSet(r.T)
	var sel *types.Selection
	for i := 0; i < ms.Len(); i++ {
		if ms.At(i).Obj().Name() == name {
			sel = ms.At(i)
		}
	}
	if sel == nil {
		// addressable receiver: try pointer method set
		env.failf("no method %s on %s", name, r.T)
	}
	fn := x.prog.SSA.MethodValue(sel)
	if fn == nil {
		env.failf("method %s has no body", name)
	}
	return x.evalPure(env.s, fn, append([]*Val{r}, args...))
}

func lookupIfaceMethod(T types.Type, name string) *types.Func {
	it, ok := T.Underlying().(*types.Interface)
	if !ok {
		return nil
	}
	for i := 0; i < it.NumMethods(); i++ {
		if it.Method(i).Name() == name {
			return it.Method(i)
		}
	}
	return nil
}

// evalPure runs a (side-effect free) /repo function on the state and merges
// the results of its paths into one term.
var pureStats = map[string]int{}

func (x *Exec) evalPure(s *State, fn *ssa.Function, args []*Val) *Val {
	// memo: the same pure call on the same state version (macros repeat sub-expressions many times)
	key := fmt.Sprintf("%d|%d|%s", s.id, s.ver, fn.String())
	for _, a := range args {
		key += "|" + a.String()
		if a.Ptr != nil {
			key += fmt.Sprintf("@%d%s", a.Ptr.Obj, pathKey(a.Ptr))
		}
	}
	if x.pureCache == nil {
		x.pureCache = map[string]*pureEntry{}
	}
	if e, ok := x.pureCache[key]; ok {
		pureStats[fn.String()+" hit"]++
		// the state object only gained facts since (same id and version): the result is still valid; the state
		// whose queries will use it (another exit, for old(...) expressions) needs the names and bindings too
		x.mergePure(s, e.decls, e.facts)
		return e.v
	}
	pureStats[fn.String()+" miss"]++
	if os.Getenv("GOVC_STATS") == "2" && pureStats[fn.String()+" miss"] < 6 {
		fmt.Fprintln(os.Stderr, "MISS", key[:min(len(key), 300)])
	}
	v, decls, facts := x.evalPure1(s, fn, args)
	x.pureCache[key] = &pureEntry{v: v, decls: decls, facts: facts}
	return v
}

type pureEntry struct {
	v            *Val
	decls, facts []string
}

// mergePure adds the declarations and definitional facts of a pure evaluation to s and to the specification sink.
func (x *Exec) mergePure(s *State, newDecls, newFacts []string) {
	targets := []*State{s}
	if x.specSink != nil && x.specSink != s {
		// evaluated in another state (old(...)): the state whose queries use the result needs the names too
		targets = append(targets, x.specSink)
	}
	for _, tgt := range targets {
		if len(newDecls) > 0 {
			seenDecl := map[string]bool{}
			for _, d := range tgt.decls {
				seenDecl[d] = true
			}
			if seenDecl[newDecls[0]] && seenDecl[newDecls[len(newDecls)-1]] {
				continue // already merged (declarations and facts travel together)
			}
			for _, d := range newDecls {
				if !seenDecl[d] {
					seenDecl[d] = true
					tgt.decls = append(tgt.decls, d)
				}
			}
		}
		seenFact := map[string]bool{}
		for _, f := range newFacts {
			if !seenFact[f] {
				seenFact[f] = true
				tgt.assume(f)
			}
		}
	}
}

func (x *Exec) evalPure1(s *State, fn *ssa.Function, args []*Val) (*Val, []string, []string) {
	type res struct {
		cond string
		v    *Val
	}
	var rs []res
	base := len(s.pc)
	baseDecl := len(s.decls)
	s2 := s.clone()
	nobl := len(x.obligs)
	saveCon := x.con
	x.con = nil // no obligations inside specification evaluation
	savePr := x.pruner
	x.pruner = nil // branches of a pure callee are merged into one term anyway
	saveNN := x.noName
	x.noName = os.Getenv("GOVC_PURE_CLOSED") != "" // optionally: closed terms, no fresh names
	defer func() { x.pruner = savePr; x.noName = saveNN }()
	resT := fn.Signature.Results()
	var rt types.Type
	if resT.Len() == 1 {
		rt = resT.At(0).Type()
	} else {
		rt = resT
	}
	var newDecls, newFacts []string
	x.callFn(s2, &Frame{fn: x.fn, depth: 1}, fn, args, nil, rt, func(s3 *State, r *Val) {
		var conds, facts []string
		for i := base; i < len(s3.pc); i++ {
			if s3.pcb[i] {
				conds = append(conds, s3.pc[i])
			} else {
				facts = append(facts, s3.pc[i])
			}
		}
		c := and(conds...)
		rs = append(rs, res{c, r})
		newDecls = append(newDecls, s3.decls[baseDecl:]...)
		for _, f := range facts {
			newFacts = append(newFacts, implies(c, f))
		}
	})
	x.mergePure(s, newDecls, newFacts)
	x.con = saveCon
	x.obligs = x.obligs[:nobl]
	if len(rs) == 0 {
		x.fail("specification call to %s has no result", fn.Name())
		return x.freshVal(s, rt, "pure"), nil, nil
	}
	// merge: all paths' extra assumptions are definitional (name bindings) or branch conditions.
	// Branch conditions select; name bindings are kept as implications.
	out := rs[len(rs)-1].v
	t := x.termOf(s, out)
	for i := len(rs) - 2; i >= 0; i-- {
		t = ite(rs[i].cond, x.termOf(s, rs[i].v), t)
	}
	if len(rs) == 1 {
		return out, newDecls, newFacts
	}
	return x.valOf(s, rt, t), newDecls, newFacts
}

// smtFunResult guesses the Go-level type of a user SMT function from its declaration (sort only matters for Bytes ops).
func (x *Exec) smtFunResult(name string) types.Type {
	switch name {
	case "sha256", "dsha256", "hash160", "bcat", "bsub", "le64":
		return types.NewSlice(types.Typ[types.Uint8])
	}
	if rt, ok := x.smtFunSorts[name]; ok {
		switch rt {
		case "Bytes":
			return types.NewSlice(types.Typ[types.Uint8])
		case "Bool":
			return types.Typ[types.Bool]
		}
	}
	return mathInt
}

// resolveNames builds the identifier environment for a program point of fn.
func (x *Exec) specVars(s *State, fn *ssa.Function, env map[ssa.Value]*Val, at *ssa.BasicBlock) map[string]*Val {
	vars := map[string]*Val{}
	for _, p := range fn.Params {
		if v, ok := env[p]; ok {
			vars[p.Name()] = v
		}
	}
	for _, fv := range fn.FreeVars {
		if v, ok := env[fv]; ok {
			vars[fv.Name()] = v
		}
	}
	if at == nil {
		return vars
	}
	// named values from DebugRefs in dominating blocks; later definitions win; phis at the point win last
	for _, b := range fn.DomPreorder() {
		if !(b.Dominates(at)) {
			continue
		}
		for _, in := range b.Instrs {
			switch in := in.(type) {
			case *ssa.DebugRef:
				if b == at {
					continue // refs inside the header body come after the cut point
				}
				id, ok := in.Expr.(*ast.Ident)
				if !ok || in.IsAddr {
					continue
				}
				if v, ok := env[in.X]; ok {
					vars[id.Name] = v
				} else if c, ok := in.X.(*ssa.Const); ok {
					vars[id.Name] = x.constVal(s, c)
				}
			}
		}
	}
	// address-taken locals: the name denotes the object (takes precedence over value DebugRefs)
	for _, b := range fn.Blocks {
		for _, in := range b.Instrs {
			if al, ok := in.(*ssa.Alloc); ok && al.Comment != "" && !strings.Contains(al.Comment, " ") && !strings.Contains(al.Comment, ".") {
				if v, ok := env[al]; ok && v.Ptr != nil {
					vars[al.Comment] = &Val{T: v.T, Ptr: v.Ptr}
				}
			}
		}
	}
	for _, in := range at.Instrs {
		if ph, ok := in.(*ssa.Phi); ok {
			if v, ok := env[ph]; ok && ph.Comment != "" {
				vars[ph.Comment] = v
			}
		}
	}
	return vars
}

func (x *Exec) voteInfosType() types.Type {
	for _, p := range x.prog.SSA.AllPackages() {
		if p.Pkg.Path() == "github.com/cometbft/cometbft/abci/types" {
			if o := p.Pkg.Scope().Lookup("VoteInfo"); o != nil {
				return types.NewSlice(o.Type())
			}
		}
	}
	return nil
}
