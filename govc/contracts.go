package main

import (
	"bufio"
	"fmt"
	"os"
	"path/filepath"
	"regexp"
	"sort"
	"strconv"
	"strings"
)

type Clause struct {
	Label string
	Props []string // overrides the function's property list when non-empty
	Expr  string
	Line  int
	File  string
	// Assumed: an `ensures-assumed` clause - callers may rely on it, the function's own verification does not prove it
	// (the part of a contract that names an uninterpreted dependency predicate); reported as an assumption wherever used.
	Assumed bool
}

type LoopSpec struct {
	Invariants []Clause
	Decreases  string
	Unroll     int
}

type Contract struct {
	Key          string // full function key
	Pkg          string
	File         string
	Line         int
	Props        []string
	Requires     []Clause
	Ensures      []Clause
	Loops        map[int]*LoopSpec
	Modifies     []string
	HasMod       bool
	NoPanic      bool
	Unreachable  map[int]Clause // `unreachable panic <k> label [Cxx ...]`: explicit panic ordinal -> label (+ property scope)
	Pure         bool
	Trusted      bool // contract is assumed, body not verified (must be listed as assumption)
	Inline       bool
	Lemmas       []Clause
	Ghost        []string
	Opts         map[string]string
	WriteSites   []WriteSite
	ReplayAssume []Clause
	Lets         [][2]string // textual macros: name, expression
}

type ContractSet struct {
	ByKey   map[string]*Contract
	SMT     []smtBlock        // file-level SMT definitions
	Binds   map[string]string // interface type path -> implementing keeper package path
	PureIfc map[string]bool   // interface types whose methods are pure getters
	Files   []string
	Consts  map[string]string
}

type smtBlock struct {
	Name     string
	Triggers []string
	Text     string
	File     string
}

var labelRe = regexp.MustCompile(`^(\[[A-Z0-9, ]+\]\s*)?([a-zA-Z_][a-zA-Z0-9_.]*):\s+`)
var defNameRe = regexp.MustCompile(`\((?:define-fun-rec|define-fun|declare-fun|declare-const)\s+([^\s()]+)`)

func parseClause(text, file string, line int) Clause {
	c := Clause{Line: line, File: file}
	t := strings.TrimSpace(text)
	if m := labelRe.FindStringSubmatch(t); m != nil {
		if m[1] != "" {
			ps := strings.Trim(strings.TrimSpace(m[1]), "[]")
			for _, p := range strings.Split(ps, ",") {
				c.Props = append(c.Props, strings.TrimSpace(p))
			}
		}
		c.Label = m[2]
		t = t[len(m[0]):]
	}
	c.Expr = strings.TrimSpace(t)
	return c
}

// loadContracts reads every contracts_verif.go under dir.
func loadContracts(dir string) (*ContractSet, error) {
	cs := &ContractSet{ByKey: map[string]*Contract{}, Binds: map[string]string{}, PureIfc: map[string]bool{}, Consts: map[string]string{}}
	var files []string
	filepath.Walk(dir, func(p string, info os.FileInfo, err error) error {
		if err != nil {
			return nil
		}
		if info.IsDir() && (info.Name() == ".git" || info.Name() == "node_modules") {
			return filepath.SkipDir
		}
		if !info.IsDir() && strings.HasPrefix(info.Name(), "contracts_verif") && strings.HasSuffix(info.Name(), ".go") {
			files = append(files, p)
		}
		return nil
	})
	sort.Strings(files)
	cs.Files = files
	for _, f := range files {
		if err := cs.parseFile(dir, f); err != nil {
			return nil, err
		}
	}
	return cs, nil
}

func (cs *ContractSet) parseFile(root, file string) error {
	fh, err := os.Open(file)
	if err != nil {
		return err
	}
	defer fh.Close()
	rel, _ := filepath.Rel(root, filepath.Dir(file))
	pkgPath := modPath + "/" + filepath.ToSlash(rel)
	type dir struct {
		text string
		line int
	}
	var dirs []dir
	sc := bufio.NewScanner(fh)
	sc.Buffer(make([]byte, 1<<20), 1<<20)
	ln := 0
	for sc.Scan() {
		ln++
		l := sc.Text()
		tl := strings.TrimLeft(l, " \t")
		if !strings.HasPrefix(tl, "//@") {
			continue
		}
		body := tl[3:]
		if strings.HasPrefix(body, "  ") || strings.HasPrefix(body, "\t") {
			if len(dirs) > 0 {
				dirs[len(dirs)-1].text += " " + strings.TrimSpace(body)
				continue
			}
		}
		dirs = append(dirs, dir{strings.TrimSpace(body), ln})
	}
	var cur *Contract
	for _, d := range dirs {
		word, rest := d.text, ""
		if i := strings.IndexAny(d.text, " \t"); i >= 0 {
			word, rest = d.text[:i], strings.TrimSpace(d.text[i+1:])
		}
		switch word {
		case "func":
			key := pkgPath + "." + rest
			cur = &Contract{Key: key, Pkg: pkgPath, File: file, Line: d.line, Loops: map[int]*LoopSpec{}, Opts: map[string]string{}}
			if _, dup := cs.ByKey[key]; dup {
				return fmt.Errorf("%s:%d: duplicate contract for %s", file, d.line, key)
			}
			cs.ByKey[key] = cur
		case "smt":
			names := defNameRe.FindAllStringSubmatch(rest, -1)
			var trig []string
			for _, n := range names {
				trig = append(trig, n[1])
			}
			nm := fmt.Sprintf("smt_%s_%d", sanitize(filepath.ToSlash(rel)+"/"+filepath.Base(file)), d.line)
			cs.SMT = append(cs.SMT, smtBlock{Name: nm, Triggers: trig, Text: rest, File: file})
		case "bind":
			parts := strings.Split(rest, "=>")
			if len(parts) != 2 {
				return fmt.Errorf("%s:%d: bad bind", file, d.line)
			}
			cs.Binds[strings.TrimSpace(parts[0])] = strings.TrimSpace(parts[1])
		case "pure-iface":
			cs.PureIfc[rest] = true
		case "const":
			parts := strings.SplitN(rest, "=", 2)
			if len(parts) == 2 {
				cs.Consts[strings.TrimSpace(parts[0])] = strings.TrimSpace(parts[1])
			}
		default:
			if cur == nil {
				return fmt.Errorf("%s:%d: directive %q outside a func block", file, d.line, word)
			}
			switch word {
			case "property":
				cur.Props = strings.Fields(rest)
			case "requires":
				cur.Requires = append(cur.Requires, parseClause(rest, file, d.line))
			case "ensures":
				cur.Ensures = append(cur.Ensures, parseClause(rest, file, d.line))
			case "ensures-assumed":
				c := parseClause(rest, file, d.line)
				c.Assumed = true
				cur.Ensures = append(cur.Ensures, c)
			case "lemma":
				cur.Lemmas = append(cur.Lemmas, parseClause(rest, file, d.line))
			case "modifies":
				cur.HasMod = true
				for _, m := range strings.Split(rest, ",") {
					m = strings.TrimSpace(m)
					if m != "" && m != "nothing" {
						cur.Modifies = append(cur.Modifies, m)
					}
				}
			case "writesite":
				f := strings.SplitN(rest, " ", 2)
				if len(f) != 2 {
					return fmt.Errorf("%s:%d: bad writesite", file, d.line)
				}
				cur.WriteSites = append(cur.WriteSites, WriteSite{Coll: f[0], Clause: parseClause(f[1], file, d.line)})
			case "let":
				kv := strings.SplitN(rest, "=", 2)
				if len(kv) != 2 {
					return fmt.Errorf("%s:%d: bad let", file, d.line)
				}
				cur.Lets = append(cur.Lets, [2]string{strings.TrimSpace(kv[0]), strings.TrimSpace(kv[1])})
			case "replay-assume":
				cur.ReplayAssume = append(cur.ReplayAssume, parseClause(rest, file, d.line))
			case "nopanic":
				cur.NoPanic = true
			case "pure":
				cur.Pure = true
			case "trusted":
				cur.Trusted = true
			case "inline":
				cur.Inline = true
			case "unreachable":
				// unreachable panic <k> <label> [<property> ...]
				f := strings.Fields(rest)
				if len(f) < 3 || f[0] != "panic" {
					return fmt.Errorf("%s:%d: bad unreachable directive (unreachable panic <k> <label> [Cxx ...])", file, d.line)
				}
				k, err := strconv.Atoi(f[1])
				if err != nil {
					return fmt.Errorf("%s:%d: bad panic ordinal", file, d.line)
				}
				if cur.Unreachable == nil {
					cur.Unreachable = map[int]Clause{}
				}
				cur.Unreachable[k] = Clause{Label: f[2], Props: f[3:], Line: d.line, File: file}
			case "opt":
				kv := strings.SplitN(rest, "=", 2)
				if len(kv) == 2 {
					cur.Opts[strings.TrimSpace(kv[0])] = strings.TrimSpace(kv[1])
				} else {
					cur.Opts[rest] = "1"
				}
			case "loop":
				f := strings.Fields(rest)
				if len(f) < 2 {
					return fmt.Errorf("%s:%d: bad loop directive", file, d.line)
				}
				k, err := strconv.Atoi(f[0])
				if err != nil {
					return fmt.Errorf("%s:%d: bad loop ordinal", file, d.line)
				}
				ls := cur.Loops[k]
				if ls == nil {
					ls = &LoopSpec{}
					cur.Loops[k] = ls
				}
				tail := strings.TrimSpace(strings.TrimPrefix(strings.TrimSpace(strings.TrimPrefix(rest, f[0])), f[1]))
				switch f[1] {
				case "invariant":
					ls.Invariants = append(ls.Invariants, parseClause(tail, file, d.line))
				case "decreases":
					ls.Decreases = tail
				case "unroll":
					ls.Unroll, _ = strconv.Atoi(tail)
				default:
					return fmt.Errorf("%s:%d: bad loop directive %q", file, d.line, f[1])
				}
			default:
				return fmt.Errorf("%s:%d: unknown directive %q", file, d.line, word)
			}
		}
	}
	return nil
}

func (c *Contract) hasProp(p string) bool {
	for _, x := range c.Props {
		if x == p {
			return true
		}
	}
	return false
}
