package main

import (
	"golang.org/x/tools/go/ssa"
)

// ---------------------------------------------------------------------------
// If-conversion of short-circuit boolean regions.
//
// `a || b || c` and `a && b` compile to a cascade of blocks that contain only
// pure value instructions and all jump to one join block D whose phi collects
// the result. Forking the path at every such test multiplies the number of
// paths by the number of disjuncts for every use; instead the region is
// evaluated on a sandbox copy of the state under its entry condition and the
// phi of D becomes an ite term. Facts produced inside the region are kept as
// implications guarded by the region's entry condition.
// ---------------------------------------------------------------------------

func (x *Exec) pureInstr(in ssa.Instruction) bool {
	switch in := in.(type) {
	case *ssa.DebugRef, *ssa.BinOp, *ssa.UnOp, *ssa.Field, *ssa.FieldAddr, *ssa.Index, *ssa.IndexAddr,
		*ssa.Convert, *ssa.ChangeType, *ssa.ChangeInterface, *ssa.Extract, *ssa.Phi, *ssa.Lookup:
		if u, ok := in.(*ssa.UnOp); ok {
			if _, isGlobal := u.X.(*ssa.Global); isGlobal {
				return false
			}
		}
		return true
	case *ssa.Call:
		if b, ok := in.Call.Value.(*ssa.Builtin); ok {
			return b.Name() == "len"
		}
		if fn := in.Call.StaticCallee(); fn != nil && !in.Call.IsInvoke() {
			name := stripGenerics(fn.String())
			if fn.Origin() != nil {
				name = stripGenerics(fn.Origin().String())
			}
			if _, ok := summaryRegistry[name]; ok && pureSummary[name] {
				return true
			}
		}
	}
	return false
}

// pureSummary: registry summaries that neither fork nor write (comparison / arithmetic of the math types, bytes.Equal...)
var pureSummary = map[string]bool{}

func init() {
	for _, t := range []string{"(cosmossdk.io/math.Int).", "(cosmossdk.io/math.LegacyDec)."} {
		for _, m := range []string{"IsZero", "IsNegative", "IsPositive", "LT", "LTE", "GT", "GTE", "Equal", "IsNil", "IsUint64", "IsInt64"} {
			pureSummary[t+m] = true
		}
	}
	for _, m := range []string{"After", "Before", "Equal", "IsZero"} {
		pureSummary["(time.Time)."+m] = true
	}
}

func (x *Exec) isRegion(b, D *ssa.BasicBlock, fn *ssa.Function, depth int) bool {
	if b == D || len(b.Preds) != 1 || depth > 6 {
		return false
	}
	if _, isLoop := x.loopsOf(fn)[b]; isLoop {
		return false
	}
	for i, in := range b.Instrs {
		if i == len(b.Instrs)-1 {
			switch t := in.(type) {
			case *ssa.Jump:
				return b.Succs[0] == D
			case *ssa.If:
				_ = t
				for _, sc := range b.Succs {
					if sc != D && !x.isRegion(sc, D, fn, depth+1) {
						return false
					}
				}
				return true
			}
			return false
		}
		if !x.pureInstr(in) {
			return false
		}
	}
	return false
}

// phiEdge returns the values flowing into D's phis along the edge from pred.
func (x *Exec) phiEdge(s *State, env map[ssa.Value]*Val, D, pred *ssa.BasicBlock) ([]*ssa.Phi, []*Val) {
	idx := -1
	for i, p := range D.Preds {
		if p == pred {
			idx = i
		}
	}
	var phis []*ssa.Phi
	var vals []*Val
	for _, in := range D.Instrs {
		ph, ok := in.(*ssa.Phi)
		if !ok {
			break
		}
		phis = append(phis, ph)
		if idx < 0 {
			vals = append(vals, nil)
		} else {
			vals = append(vals, x.val(s, env, ph.Edges[idx]))
		}
	}
	return phis, vals
}

func termVal(v *Val) bool {
	return v != nil && v.S != "" && v.Ptr == nil && v.SRef == nil && v.Tag == nil && v.Clo == nil && v.Fn == nil && v.Tup == nil
}

// regionVals evaluates region block b (entered from prev) on the sandbox (s, env) and returns the merged phi values of D.
func (x *Exec) regionVals(s *State, env map[ssa.Value]*Val, fr *Frame, b, prev, D *ssa.BasicBlock) ([]*Val, bool) {
	x.evalPhis(s, env, b, prev)
	for i := x.firstNonPhi(b); i < len(b.Instrs)-1; i++ {
		switch in := b.Instrs[i].(type) {
		case *ssa.DebugRef:
		case *ssa.Call:
			var args []*Val
			for _, a := range in.Call.Args {
				args = append(args, x.val(s, env, a))
			}
			if bi, ok := in.Call.Value.(*ssa.Builtin); ok {
				env[in] = x.builtin(s, bi, &in.Call, args, in.Type())
				continue
			}
			fn := in.Call.StaticCallee()
			name := stripGenerics(fn.String())
			if fn.Origin() != nil {
				name = stripGenerics(fn.Origin().String())
			}
			v, ok := summaryRegistry[name](x, s, args, in.Type())
			if !ok {
				return nil, false
			}
			env[in] = v
		case ssa.Value:
			v := x.evalValue(s, env, fr, in)
			if v != nil {
				env[in] = v
			}
		default:
			return nil, false
		}
	}
	switch t := b.Instrs[len(b.Instrs)-1].(type) {
	case *ssa.Jump:
		_, vals := x.phiEdge(s, env, D, b)
		return vals, true
	case *ssa.If:
		c := x.val(s, env, t.Cond).S
		var sides [2][]*Val
		var conds = [2]string{c, not(c)}
		for k := 0; k < 2; k++ {
			sc := b.Succs[k]
			if sc == D {
				_, sides[k] = x.phiEdge(s, env, D, b)
				continue
			}
			s2 := s.clone()
			env2 := cloneEnv(env)
			base := len(s2.pc)
			s2.assumeBranch(conds[k])
			vals, ok := x.regionVals(s2, env2, fr, sc, b, D)
			if !ok {
				return nil, false
			}
			sides[k] = vals
			x.mergeBack(s, s2, base, conds[k])
		}
		out := make([]*Val, len(sides[0]))
		for i := range out {
			a, bb := sides[0][i], sides[1][i]
			if !termVal(a) || !termVal(bb) {
				return nil, false
			}
			out[i] = &Val{T: a.T, S: ite(c, a.S, bb.S)}
		}
		return out, true
	}
	return nil, false
}

// mergeBack copies the declarations of the sandbox into s and keeps its new facts as implications guarded by cond.
func (x *Exec) mergeBack(s, s2 *State, base int, cond string) {
	seen := map[string]bool{}
	for _, d := range s.decls {
		seen[d] = true
	}
	for _, d := range s2.decls {
		if !seen[d] {
			seen[d] = true
			s.decls = append(s.decls, d)
		}
	}
	for i := base; i < len(s2.pc); i++ {
		if s2.pc[i] == cond {
			continue
		}
		s.assume(implies(cond, s2.pc[i]))
	}
}

// tryIfConvert handles the If that ends block b when one arm is a pure region joining the other arm.
// On success the phis of the join block are bound in env and the join block is returned.
func (x *Exec) tryIfConvert(s *State, env map[ssa.Value]*Val, fr *Frame, b *ssa.BasicBlock, cond string) *ssa.BasicBlock {
	if x.disc != nil {
		return nil
	}
	T, F := b.Succs[0], b.Succs[1]
	var R, D *ssa.BasicBlock
	condR := ""
	switch {
	case x.isRegion(F, T, fr.fn, 0):
		R, D, condR = F, T, not(cond)
	case x.isRegion(T, F, fr.fn, 0):
		R, D, condR = T, F, cond
	default:
		return nil
	}
	if _, isLoop := x.loopsOf(fr.fn)[D]; isLoop {
		return nil
	}
	nobl := len(x.obligs)
	phis, direct := x.phiEdge(s, env, D, b)
	if len(phis) == 0 {
		return nil
	}
	s2 := s.clone()
	env2 := cloneEnv(env)
	base := len(s2.pc)
	s2.assumeBranch(condR)
	nerr := len(x.errs)
	vals, ok := x.regionVals(s2, env2, fr, R, b, D)
	if !ok || len(x.errs) != nerr {
		x.errs = x.errs[:nerr]
		for _, o := range x.obligs[nobl:] {
			delete(obligStore, o)
		}
		x.obligs = x.obligs[:nobl]
		return nil
	}
	for i := range phis {
		if !termVal(vals[i]) || !termVal(direct[i]) {
			for _, o := range x.obligs[nobl:] {
				delete(obligStore, o)
			}
			x.obligs = x.obligs[:nobl]
			return nil
		}
	}
	x.mergeBack(s, s2, base, condR)
	for i, ph := range phis {
		t := ite(condR, vals[i].S, direct[i].S)
		env[ph] = &Val{T: ph.Type(), S: x.name(s, ph.Name(), x.c.sortOf(ph.Type()), t)}
	}
	x.ifconv++
	return D
}
