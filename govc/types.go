package main

import (
	"fmt"
	"go/types"
	"math/big"
	"sort"
	"strings"
)

func bigPow2(n int) string {
	return new(big.Int).Lsh(big.NewInt(1), uint(n)).String()
}

// Ctx is the per-function verification context: SMT prelude, sort cache, counters.
type Ctx struct {
	P          *Prelude
	sorts      map[string]string // types.Type string -> sort name
	structs    map[string]*StructInfo
	fresh      int
	strLits    map[string]string
	typeTag    map[string]int
	inProg     map[string]bool
	notes      map[string]bool // abstraction notes (what was dropped/abstracted)
	errGlobals map[string]bool
	zarrs      map[string]string
}

type StructInfo struct {
	Sort   string
	Ctor   string
	Fields []FieldInfo
	T      *types.Struct
}

type FieldInfo struct {
	Name string
	Acc  string
	Sort string
	T    types.Type
}

func newCtx() *Ctx {
	c := &Ctx{P: newPrelude(), sorts: map[string]string{}, structs: map[string]*StructInfo{},
		strLits: map[string]string{}, typeTag: map[string]int{}, inProg: map[string]bool{}, notes: map[string]bool{}, errGlobals: map[string]bool{}, zarrs: map[string]string{}}
	c.basePrelude()
	return c
}

func (c *Ctx) note(s string) { c.notes[s] = true }

func (c *Ctx) freshName(prefix string) string {
	c.fresh++
	return fmt.Sprintf("%s!%d", sanitize(prefix), c.fresh)
}

func sanitize(s string) string {
	var sb strings.Builder
	for _, r := range s {
		switch {
		case r >= 'a' && r <= 'z', r >= 'A' && r <= 'Z', r >= '0' && r <= '9', r == '_', r == '.', r == '!', r == '$':
			sb.WriteRune(r)
		default:
			sb.WriteRune('_')
		}
	}
	return sb.String()
}

func (c *Ctx) basePrelude() {
	p := c.P
	p.declare("Bytes", "(declare-sort Bytes 0)")
	p.declare("blen", "(declare-fun blen (Bytes) Int)")
	p.declare("bat", "(declare-fun bat (Bytes Int) Int)")
	p.declare("bcat", "(declare-fun bcat (Bytes Bytes) Bytes)")
	p.declare("bsub", "(declare-fun bsub (Bytes Int Int) Bytes)")
	p.declare("bsplice", "(declare-fun bsplice (Bytes Int Bytes) Bytes)")
	p.declare("bempty", "(declare-const bempty Bytes)")
	p.declare("bzeros", "(declare-fun bzeros (Int) Bytes)")
	p.declare("bprefix", "(declare-fun bprefix (Bytes Bytes) Bool)") // bprefix(p, s): s has prefix p
	p.declare("sha256", "(declare-fun sha256 (Bytes) Bytes)")
	p.declare("dsha256", "(declare-fun dsha256 (Bytes) Bytes)")
	p.declare("hash160", "(declare-fun hash160 (Bytes) Bytes)")
	p.declare("le64", "(declare-fun le64 (Int) Bytes)")
	p.axiom("blen_nonneg", []string{"blen"}, "(assert (forall ((b Bytes)) (! (>= (blen b) 0) :pattern ((blen b)))))")
	p.axiom("bempty_len", []string{"bempty"}, "(assert (= (blen bempty) 0))\n(assert (forall ((b Bytes)) (! (=> (= (blen b) 0) (= b bempty)) :pattern ((blen b)))))")
	p.axiom("bcat_len", []string{"bcat"}, "(assert (forall ((a Bytes) (b Bytes)) (! (= (blen (bcat a b)) (+ (blen a) (blen b))) :pattern ((bcat a b)))))\n"+
		"(assert (forall ((a Bytes)) (! (= (bcat a bempty) a) :pattern ((bcat a bempty)))))\n(assert (forall ((a Bytes)) (! (= (bcat bempty a) a) :pattern ((bcat bempty a)))))")
	p.axiom("bsub_len", []string{"bsub"}, "(assert (forall ((b Bytes) (l Int) (h Int)) (! (=> (and (<= 0 l) (<= l h) (<= h (blen b))) (= (blen (bsub b l h)) (- h l))) :pattern ((bsub b l h)))))\n"+
		"(assert (forall ((b Bytes) (l Int) (h Int) (i Int)) (! (=> (and (<= 0 l) (<= l h) (<= h (blen b)) (<= 0 i) (< i (- h l))) (= (bat (bsub b l h) i) (bat b (+ l i)))) :pattern ((bat (bsub b l h) i)))))\n"+
		"(assert (forall ((b Bytes) (h Int)) (! (=> (= h (blen b)) (= (bsub b 0 h) b)) :pattern ((bsub b 0 h)))))")
	p.axiom("bsplice_ax", []string{"bsplice"}, "(assert (forall ((c Bytes) (o Int) (s Bytes)) (! (= (blen (bsplice c o s)) (blen c)) :pattern ((bsplice c o s)))))\n"+
		// two successive splices that tile the whole buffer give the concatenation
		"(assert (forall ((c Bytes) (a Bytes) (b Bytes) (o Int)) (! (=> (and (= o (blen a)) (= (blen c) (+ (blen a) (blen b)))) (= (bsplice (bsplice c 0 a) o b) (bcat a b))) :pattern ((bsplice (bsplice c 0 a) o b)))))\n"+
		"(assert (forall ((c Bytes) (s Bytes)) (! (=> (= (blen c) (blen s)) (= (bsplice c 0 s) s)) :pattern ((bsplice c 0 s)))))")
	p.axiom("bzeros_len", []string{"bzeros"}, "(assert (forall ((n Int)) (! (=> (>= n 0) (= (blen (bzeros n)) n)) :pattern ((bzeros n)))))")
	p.axiom("bat_range", []string{"bat"}, "(assert (forall ((b Bytes) (i Int)) (! (and (<= 0 (bat b i)) (< (bat b i) 256)) :pattern ((bat b i)))))")
	p.axiom("hash_len", []string{"sha256", "dsha256", "hash160", "le64"}, "(assert (forall ((b Bytes)) (! (= (blen (sha256 b)) 32) :pattern ((sha256 b)))))\n"+
		"(assert (forall ((b Bytes)) (! (= (blen (dsha256 b)) 32) :pattern ((dsha256 b)))))\n"+
		"(assert (forall ((b Bytes)) (! (= (blen (hash160 b)) 20) :pattern ((hash160 b)))))\n"+
		"(assert (forall ((n Int)) (! (= (blen (le64 n)) 8) :pattern ((le64 n)))))")
	p.axiom("bprefix_ax", []string{"bprefix"}, "(assert (forall ((p Bytes) (s Bytes)) (! (=> (bprefix p s) (<= (blen p) (blen s))) :pattern ((bprefix p s)))))\n(assert (forall ((s Bytes)) (! (bprefix s s) :pattern ((bprefix s s)))))")
}

// strLit returns the constant naming a Go string literal.
func (c *Ctx) strLit(s string) string {
	if s == "" {
		return "bempty"
	}
	if n, ok := c.strLits[s]; ok {
		return n
	}
	name := fmt.Sprintf("str!%d_%s", len(c.strLits), sanitize(trunc(s, 24)))
	c.strLits[s] = name
	c.P.declare(name, fmt.Sprintf("(declare-const %s Bytes)", name))
	var facts []string
	facts = append(facts, fmt.Sprintf("(assert (= (blen %s) %d))", name, len(s)))
	// distinct from earlier literals; prefix facts between literals
	others := make([]string, 0, len(c.strLits))
	for o := range c.strLits {
		others = append(others, o)
	}
	sort.Strings(others) // deterministic query text
	for _, o := range others {
		on := c.strLits[o]
		if on == name {
			continue
		}
		facts = append(facts, fmt.Sprintf("(assert (not (= %s %s)))", name, on))
		if strings.HasPrefix(s, o) {
			facts = append(facts, fmt.Sprintf("(assert (bprefix %s %s))", on, name))
		} else {
			facts = append(facts, fmt.Sprintf("(assert (not (bprefix %s %s)))", on, name))
		}
		if strings.HasPrefix(o, s) {
			facts = append(facts, fmt.Sprintf("(assert (bprefix %s %s))", name, on))
		} else {
			facts = append(facts, fmt.Sprintf("(assert (not (bprefix %s %s)))", name, on))
		}
	}
	if len(s) <= 8 {
		for i := 0; i < len(s); i++ {
			facts = append(facts, fmt.Sprintf("(assert (= (bat %s %d) %d))", name, i, s[i]))
		}
	}
	c.P.axiom("lit_"+name, []string{name}, strings.Join(facts, "\n"))
	return name
}

func trunc(s string, n int) string {
	if len(s) > n {
		return s[:n]
	}
	return s
}

func (c *Ctx) tagOf(t types.Type) string {
	k := t.String()
	if n, ok := c.typeTag[k]; ok {
		return num(int64(n))
	}
	n := len(c.typeTag) + 1
	c.typeTag[k] = n
	return num(int64(n))
}

func isByte(t types.Type) bool {
	b, ok := t.Underlying().(*types.Basic)
	return ok && (b.Kind() == types.Uint8 || b.Kind() == types.Byte)
}

func namedPath(t types.Type) string {
	if n, ok := t.(*types.Named); ok && n.Obj() != nil && n.Obj().Pkg() != nil {
		return n.Obj().Pkg().Path() + "." + n.Obj().Name()
	}
	if n, ok := t.(*types.Named); ok && n.Obj() != nil {
		return n.Obj().Name()
	}
	return ""
}

func deref(t types.Type) types.Type {
	if p, ok := t.Underlying().(*types.Pointer); ok {
		return p.Elem()
	}
	return t
}

// Special named types that are given a direct mathematical sort.
var specialSorts = map[string]string{
	"cosmossdk.io/math.Int":       "Int",
	"cosmossdk.io/math.LegacyDec": "Int", // scaled by 10^18
	"math/big.Int":                "Int",
	"time.Time":                   "Int", // nanoseconds
}

func (c *Ctx) sortOf(t types.Type) string {
	key := t.String()
	if s, ok := c.sorts[key]; ok {
		return s
	}
	s := c.sortOf1(t)
	c.sorts[key] = s
	return s
}

func (c *Ctx) declCoins() {
	c.P.declare("Coins", "(define-sort Coins () (Array Bytes Int))")
}

func (c *Ctx) sortOf1(t types.Type) string {
	if n, ok := t.(*types.Named); ok && n.Origin() != nil && namedPath(n.Origin()) == "cosmossdk.io/collections.Pair" && n.TypeArgs().Len() == 2 {
		return c.pairSort(c.sortOf(n.TypeArgs().At(0)), c.sortOf(n.TypeArgs().At(1)))
	}
	if np := namedPath(t); np != "" {
		if s, ok := specialSorts[np]; ok {
			if s == "Coins" {
				c.declCoins()
			}
			return s
		}
	}
	switch u := t.Underlying().(type) {
	case *types.Basic:
		switch {
		case u.Info()&types.IsBoolean != 0:
			return "Bool"
		case u.Info()&types.IsInteger != 0:
			return "Int"
		case u.Info()&types.IsFloat != 0:
			return "Float64"
		case u.Info()&types.IsString != 0:
			return "Bytes"
		case u.Kind() == types.UntypedNil:
			return "Int"
		case u.Kind() == types.UnsafePointer:
			return "Int"
		}
		return "Int"
	case *types.Slice:
		if isByte(u.Elem()) {
			return "Bytes"
		}
		return c.slcSort(c.sortOf(u.Elem()))
	case *types.Array:
		if isByte(u.Elem()) {
			return "Bytes"
		}
		return c.slcSort(c.sortOf(u.Elem()))
	case *types.Pointer:
		np := namedPath(u.Elem())
		if np == "math/big.Int" {
			return c.optSort("Int")
		}
		if _, ok := u.Elem().Underlying().(*types.Struct); ok {
			es := c.sortOf(u.Elem())
			if es == "Int" { // opaque struct
				return "Int"
			}
			return c.optSort(es)
		}
		return c.optSort(c.sortOf(u.Elem()))
	case *types.Struct:
		return c.structSort(t, u)
	case *types.Interface:
		return "Int"
	case *types.Map:
		return "Int"
	case *types.Signature, *types.Chan, *types.Tuple:
		return "Int"
	}
	return "Int"
}

func sortMangle(s string) string {
	r := strings.NewReplacer("(", "", ")", "", " ", "_")
	return r.Replace(s)
}

func (c *Ctx) slcSort(elem string) string {
	name := "Slc_" + sortMangle(elem)
	c.P.declare(name, fmt.Sprintf("(declare-datatypes ((%s 0)) (((mk_%s (arr_%s (Array Int %s)) (off_%s Int) (len_%s Int)))))", name, name, name, elem, name, name))
	return name
}

func (c *Ctx) optSort(elem string) string {
	name := "Opt_" + sortMangle(elem)
	c.P.declare(name, fmt.Sprintf("(declare-datatypes ((%s 0)) (((none_%s) (some_%s (val_%s %s)))))", name, name, name, name, elem))
	return name
}

// opaque struct types: anything outside /repo with unexported fields, plus a deny list
func (c *Ctx) structOpaque(t types.Type, u *types.Struct) bool {
	np := namedPath(t)
	if strings.HasPrefix(np, "github.com/goatnetwork/goat/") {
		if strings.HasSuffix(np, "keeper.Keeper") || strings.HasSuffix(np, "keeper.msgServer") {
			return true
		}
		return false
	}
	switch {
	case strings.HasPrefix(np, "github.com/btcsuite/btcd/wire.MsgTx"), strings.HasPrefix(np, "github.com/btcsuite/btcd/wire.TxOut"):
		return false
	case strings.HasPrefix(np, "github.com/ethereum/go-ethereum/core/types/goattypes."):
		// request records: exported fields only
	case strings.HasPrefix(np, "github.com/cosmos/cosmos-sdk/types.Coin"),
		strings.HasPrefix(np, "github.com/cosmos/cosmos-sdk/types.DecCoin"):
	case strings.HasPrefix(np, "github.com/cometbft/cometbft/abci/types.ValidatorUpdate"):
		return true
	case np == "github.com/cometbft/cometbft/abci/types.VoteInfo", np == "github.com/cometbft/cometbft/abci/types.Validator",
		np == "github.com/cometbft/cometbft/abci/types.Misbehavior":
		// plain records of the consensus engine: exported fields only
	case np == "":
		// anonymous struct
	default:
		return true
	}
	for i := 0; i < u.NumFields(); i++ {
		if !u.Field(i).Exported() {
			return true
		}
	}
	return false
}

func (c *Ctx) structSort(t types.Type, u *types.Struct) string {
	key := t.String()
	if si, ok := c.structs[key]; ok {
		return si.Sort
	}
	if c.structOpaque(t, u) {
		return "Int"
	}
	if c.inProg[key] {
		// recursive type: cut with an opaque reference
		return "Int"
	}
	c.inProg[key] = true
	defer delete(c.inProg, key)
	np := namedPath(t)
	base := np
	if i := strings.LastIndex(np, "/"); i >= 0 {
		j := strings.LastIndex(np[:i], "/")
		base = np[j+1:]
	}
	if base == "" {
		base = fmt.Sprintf("anon%d", len(c.structs))
	}
	name := "T_" + sanitize(strings.NewReplacer("/", "_", ".", "_").Replace(base))
	for c.P.has(name) {
		name += "x"
	}
	si := &StructInfo{Sort: name, Ctor: "mk_" + name, T: u}
	var fl []string
	for i := 0; i < u.NumFields(); i++ {
		f := u.Field(i)
		fs := c.sortOf(f.Type())
		acc := fmt.Sprintf("%s.%s", name, sanitize(f.Name()))
		si.Fields = append(si.Fields, FieldInfo{Name: f.Name(), Acc: acc, Sort: fs, T: f.Type()})
		fl = append(fl, fmt.Sprintf("(%s %s)", acc, fs))
	}
	if len(fl) == 0 {
		c.P.declare(name, fmt.Sprintf("(declare-datatypes ((%s 0)) (((%s))))", name, si.Ctor))
	} else {
		c.P.declare(name, fmt.Sprintf("(declare-datatypes ((%s 0)) (((%s %s))))", name, si.Ctor, strings.Join(fl, " ")))
	}
	c.structs[key] = si
	return name
}

func (c *Ctx) structInfo(t types.Type) *StructInfo {
	u, ok := t.Underlying().(*types.Struct)
	if !ok {
		return nil
	}
	if c.sortOf(t) == "Int" {
		return nil
	}
	_ = u
	return c.structs[t.String()]
}

// intRange returns the type-invariant of an integer-typed term, or "true".
func intRange(t types.Type, x string) string {
	if np := namedPath(t); np != "" {
		if _, ok := specialSorts[np]; ok {
			return "true"
		}
	}
	b, ok := t.Underlying().(*types.Basic)
	if !ok || b.Info()&types.IsInteger == 0 {
		return "true"
	}
	bits, signed := intBits(b)
	if signed {
		return and(sx("<=", "(- "+pow2(bits-1)+")", x), sx("<", x, pow2(bits-1)))
	}
	return and(sx("<=", "0", x), sx("<", x, pow2(bits)))
}

func intBits(b *types.Basic) (int, bool) {
	switch b.Kind() {
	case types.Int8:
		return 8, true
	case types.Int16:
		return 16, true
	case types.Int32:
		return 32, true
	case types.Int64, types.Int, types.UntypedInt:
		return 64, true
	case types.Uint8:
		return 8, false
	case types.Uint16:
		return 16, false
	case types.Uint32:
		return 32, false
	case types.Uint64, types.Uint, types.Uintptr:
		return 64, false
	}
	return 64, true
}

// wrapInt reduces a mathematical result to the machine range of t.
func wrapInt(t types.Type, x string, mayUnder, mayOver bool) string {
	b, ok := t.Underlying().(*types.Basic)
	if !ok {
		return x
	}
	bits, signed := intBits(b)
	m := pow2(bits)
	if signed {
		h := pow2(bits - 1)
		r := x
		if mayOver {
			r = ite(sx(">=", x, h), sx("-", x, m), r)
		}
		if mayUnder {
			r = ite(sx("<", x, "(- "+h+")"), sx("+", x, m), r)
		}
		return r
	}
	r := x
	if mayOver {
		r = ite(sx(">=", x, m), sx("-", x, m), r)
	}
	if mayUnder {
		r = ite(sx("<", x, "0"), sx("+", x, m), r)
	}
	return r
}

func wrapMod(t types.Type, x string) string {
	b, ok := t.Underlying().(*types.Basic)
	if !ok {
		return x
	}
	bits, signed := intBits(b)
	m := pow2(bits)
	if signed {
		h := pow2(bits - 1)
		return sx("-", sx("mod", sx("+", x, h), m), h)
	}
	return sx("mod", x, m)
}

// constArr: the constant array with every element zero. cvc5 accepts (as const ...) only for value
// terms, so element terms that mention uninterpreted constants get a declared array with an axiom.
func (c *Ctx) constArr(idx, elem, zero string) string {
	if !strings.Contains(zero, "bempty") && !strings.Contains(zero, "zarr!") && !strings.Contains(zero, "bzeros") {
		return fmt.Sprintf("((as const (Array %s %s)) %s)", idx, elem, zero)
	}
	key := idx + "|" + elem + "|" + zero
	if n, ok := c.zarrs[key]; ok {
		return n
	}
	n := "zarr!" + sanitize(idx+"_"+elem+"_"+zero)
	c.zarrs[key] = n
	c.P.declare(n, fmt.Sprintf("(declare-const %s (Array %s %s))", n, idx, elem))
	c.P.axiom("ax_"+n, []string{n}, fmt.Sprintf("(assert (forall ((i %s)) (! (= (select %s i) %s) :pattern ((select %s i)))))", idx, n, zero, n))
	return n
}
