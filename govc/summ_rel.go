package main

// Dependency summaries for the relayer-group management (C16).
//
// Every summary here is an ASSUMPTION about a dependency. The SMT predicates addsNonNil / removesNonNil /
// ecdsaVerify are declared by `//@ smt` lines in x/relayer/keeper/contracts_verif_group.go.

import (
	"fmt"
	"go/token"
	"go/types"

	"golang.org/x/tools/go/ssa"
)

// mapMembershipClosure recognises `func(e K) bool { return m[e] }` over a captured map[K]bool and returns the
// term of the captured map (sort GoMap_K_Bool) — the only deletion predicate the summary of slices.DeleteFunc supports.
func (x *Exec) mapMembershipClosure(s *State, clo *Closure) (mapTerm, mapSort string, ok bool) {
	fn := clo.Fn
	if fn == nil || len(fn.Blocks) != 1 || len(fn.FreeVars) != 1 || len(fn.Params) != 1 || len(clo.Bindings) != 1 {
		return "", "", false
	}
	var ld *ssa.UnOp
	var lk *ssa.Lookup
	var rt *ssa.Return
	for _, in := range fn.Blocks[0].Instrs {
		switch v := in.(type) {
		case *ssa.DebugRef:
		case *ssa.UnOp:
			if ld != nil || v.Op != token.MUL || v.X != ssa.Value(fn.FreeVars[0]) {
				return "", "", false
			}
			ld = v
		case *ssa.Lookup:
			if lk != nil || ld == nil || v.X != ssa.Value(ld) || v.Index != ssa.Value(fn.Params[0]) || v.CommaOk {
				return "", "", false
			}
			lk = v
		case *ssa.Return:
			rt = v
		default:
			return "", "", false
		}
	}
	if ld == nil || lk == nil || rt == nil || len(rt.Results) != 1 || rt.Results[0] != ssa.Value(lk) {
		return "", "", false
	}
	mt, isMap := ld.Type().Underlying().(*types.Map)
	if !isMap || x.c.sortOf(mt.Elem()) != "Bool" {
		return "", "", false
	}
	b := clo.Bindings[0]
	if b == nil || b.Ptr == nil {
		return "", "", false
	}
	mv := x.load(s, b.Ptr)
	if mv == nil || mv.Ptr == nil {
		return "", "", false
	}
	return x.termOf(s, mv), x.mapSort(mt), true
}

func init() {
	R := summaryRegistry

	// goattypes.DecodeRequests (refines the summary of summ_goat.go, whose init runs first: files are
	// initialised in file-name order): the decoder builds every list element with new(T), so the relayer
	// request lists it returns contain no nil pointers (goat-geth core/types/goattypes/request.go:224-239).
	const dec = "github.com/ethereum/go-ethereum/core/types/goattypes.DecodeRequests"
	if prev, ok := R[dec]; ok {
		R[dec] = func(x *Exec, s *State, a []*Val, resT types.Type) (*Val, bool) {
			v, ok := prev(x, s, a, resT)
			if !ok || v == nil || len(v.Tup) < 2 {
				return v, ok
			}
			T := resAt(resT, 1)
			si := x.c.structInfo(T)
			if si == nil {
				return v, ok
			}
			t := x.termOf(s, v.Tup[1])
			for _, f := range si.Fields {
				switch f.Name {
				case "Adds":
					s.assume(sx("addsNonNil", sx(f.Acc, t)))
				case "Removes":
					s.assume(sx("removesNonNil", sx(f.Acc, t)))
				}
			}
			return v, ok
		}
	}

	// go-ethereum crypto.VerifySignature(pubkey, digestHash, signature): an uninterpreted predicate of the three
	// byte strings (the secp256k1 verification itself is outside the verified subset).
	R["github.com/ethereum/go-ethereum/crypto.VerifySignature"] = func(x *Exec, s *State, a []*Val, resT types.Type) (*Val, bool) {
		return &Val{T: resT, S: sx("ecdsaVerify", x.termOf(s, a[0]), x.termOf(s, a[1]), x.termOf(s, a[2]))}, true
	}

	// x/auth account keeper as seen by the relayer module: HasAccount(ctx, addr) is an uninterpreted predicate of
	// the address (the auth store is not part of the modelled state; NewVoter calls it once, before any account write).
	R["invoke:github.com/goatnetwork/goat/x/relayer/types.AccountKeeper.HasAccount"] = func(x *Exec, s *State, a []*Val, resT types.Type) (*Val, bool) {
		return &Val{T: resT, S: sx("accountExists", x.termOf(s, a[len(a)-1]))}, true
	}

	// slices.DeleteFunc(s, del) for a []string / [][]byte and a map-membership closure (see mapMembershipClosure):
	// the result r is the order-preserving filter of s by !del. Characterisation (absolute array positions; fidx maps a
	// result position to its source position, finv is its inverse on the kept positions):
	//   F1  off r = off s, 0 <= len r <= len s
	//   F2  every result element is a kept source element:  r[q] = s[fidx q], !del(r[q]), q <= fidx q < end(s)
	//   F3  fidx is strictly increasing (order is preserved)
	//   F4  every source element with !del occurs in the result: fidx (finv p) = p
	//   F5  nothing deleted => r = s;  something deleted => len r < len s
	// The in-place shifting / clearing of the argument's backing array is NOT modelled: callers must not read the
	// argument slice after the call (EndBlocker overwrites relayer.Voters with the result in both branches).
	R["slices.DeleteFunc"] = func(x *Exec, s *State, a []*Val, resT types.Type) (*Val, bool) {
		if len(a) != 2 || a[1] == nil || a[1].Clo == nil {
			return nil, false
		}
		srt := x.c.sortOf(resT)
		if srt != "Slc_Bytes" {
			return nil, false
		}
		m, ms, ok := x.mapMembershipClosure(s, a[1].Clo)
		if !ok {
			return nil, false
		}
		m = x.name(s, "delset", ms, m)
		del := func(e string) string {
			return and(sx("select", sx("dom_"+ms, m), e), sx("select", sx("val_"+ms, m), e))
		}
		in := x.name(s, "delin", srt, x.termOf(s, a[0]))
		r := x.fresh(s, "delout", srt)
		arr, off, ln := func(t string) string { return sx("arr_"+srt, t) }, func(t string) string { return sx("off_"+srt, t) }, func(t string) string { return sx("len_"+srt, t) }
		fidx, finv := x.c.freshName("fidx"), x.c.freshName("finv")
		x.c.P.declare(fidx, fmt.Sprintf("(declare-fun %s (Int) Int)", fidx))
		x.c.P.declare(finv, fmt.Sprintf("(declare-fun %s (Int) Int)", finv))
		endIn, endR := sx("+", off(in), ln(in)), sx("+", off(r), ln(r))
		s.assume(and(eq(off(r), off(in)), sx("<=", "0", ln(r)), sx("<=", ln(r), ln(in))))
		rq, sq := sx("select", arr(r), "q"), sx("select", arr(in), sx(fidx, "q"))
		s.assume(fmt.Sprintf("(forall ((q Int)) (! (=> (and (<= %s q) (< q %s)) (and (<= q (%s q)) (< (%s q) %s) (= %s %s) (not %s) (= (%s (%s q)) q))) :pattern (%s) :pattern ((%s q))))",
			off(r), endR, fidx, fidx, endIn, rq, sq, del(rq), finv, fidx, rq, fidx))
		s.assume(fmt.Sprintf("(forall ((q Int) (q2 Int)) (! (=> (and (<= %s q) (< q q2) (< q2 %s)) (< (%s q) (%s q2))) :pattern ((%s q) (%s q2))))",
			off(r), endR, fidx, fidx, fidx, fidx))
		sp := sx("select", arr(in), "p")
		s.assume(fmt.Sprintf("(forall ((p Int)) (! (=> (and (<= %s p) (< p %s) (not %s)) (and (<= %s (%s p)) (< (%s p) %s) (= (%s (%s p)) p))) :pattern (%s) :pattern ((%s p))))",
			off(in), endIn, del(sp), off(r), finv, finv, endR, fidx, finv, sp, finv))
		w := x.fresh(s, "delwit", "Int")
		s.assume(or(eq(r, in), and(sx("<=", off(in), w), sx("<", w, endIn), del(sx("select", arr(in), w)), sx("<", ln(r), ln(in)))))
		return x.valOf(s, resT, r), true
	}
}
