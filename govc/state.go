package main

import (
	"fmt"
	"go/types"
	"strings"
)

// ---------------------------------------------------------------------------
// Abstract state: one group of SMT variables per collection field of a keeper.
// ---------------------------------------------------------------------------

type CollInfo struct {
	Name  string // "<module>.<Field>"
	Kind  string // Item, Map, KeySet, Sequence
	K, V  types.Type
	KSort string
	VSort string
}

type comp struct{ name, sort string }

func (ci *CollInfo) components() []comp {
	switch ci.Kind {
	case "Item":
		return []comp{{ci.Name + ".has", "Bool"}, {ci.Name + ".val", ci.VSort}}
	case "Sequence":
		return []comp{{ci.Name + ".val", "Int"}}
	case "Map":
		return []comp{{ci.Name + ".dom", fmt.Sprintf("(Array %s Bool)", ci.KSort)}, {ci.Name + ".val", fmt.Sprintf("(Array %s %s)", ci.KSort, ci.VSort)}}
	case "KeySet":
		return []comp{{ci.Name + ".dom", fmt.Sprintf("(Array %s Bool)", ci.KSort)}}
	}
	return nil
}

func (x *Exec) pairSort(a, b string) string { return x.c.pairSort(a, b) }

func (c *Ctx) pairSort(a, b string) string {
	name := "Pair_" + sortMangle(a) + "_" + sortMangle(b)
	c.P.declare(name, fmt.Sprintf("(declare-datatypes ((%s 0)) (((mk_%s (k1_%s %s) (k2_%s %s)))))", name, name, name, a, name, b))
	return name
}

// keySort: sort of a collections key type (Pair keys are a datatype; see Ctx.sortOf).
func (x *Exec) keySort(T types.Type) string { return x.c.sortOf(T) }

func (x *Exec) collInfo(tg *Tag) *CollInfo {
	key := tg.Module + "." + tg.Field
	if ci, ok := x.colls[key]; ok {
		return ci
	}
	ci := &CollInfo{Name: key}
	n, _ := tg.T.(*types.Named)
	if n == nil {
		x.fail("collection %s has no named type", key)
		ci.Kind = "?"
		x.colls[key] = ci
		return ci
	}
	base := namedPath(n)
	if n.Origin() != nil {
		base = namedPath(n.Origin())
	}
	ta := n.TypeArgs()
	switch base {
	case "cosmossdk.io/collections.Item":
		ci.Kind = "Item"
		ci.V = ta.At(0)
	case "cosmossdk.io/collections.Sequence":
		ci.Kind = "Sequence"
		ci.V = types.Typ[types.Uint64]
	case "cosmossdk.io/collections.Map":
		ci.Kind = "Map"
		ci.K, ci.V = ta.At(0), ta.At(1)
	case "cosmossdk.io/collections.KeySet":
		ci.Kind = "KeySet"
		ci.K = ta.At(0)
	default:
		ci.Kind = "?"
		x.fail("unsupported collection type %s", base)
	}
	if ci.K != nil {
		ci.KSort = x.keySort(ci.K)
	}
	if ci.V != nil {
		ci.VSort = x.c.sortOf(ci.V)
	}
	x.colls[key] = ci
	return ci
}

// collType finds the Go type of field `field` of module's Keeper.
var collTypeCache = map[string]types.Type{}

func (x *Exec) collType(module, field string) types.Type {
	ck := module + "." + field
	if t, ok := collTypeCache[ck]; ok {
		return t
	}
	t := x.collTypeSlow(module, field)
	collTypeCache[ck] = t
	return t
}

func (x *Exec) collTypeSlow(module, field string) types.Type {
	for _, p := range x.prog.SSA.AllPackages() {
		if p.Pkg.Path() != fmt.Sprintf("%s/x/%s/keeper", modPath, module) {
			continue
		}
		obj := p.Pkg.Scope().Lookup("Keeper")
		if obj == nil {
			return nil
		}
		st, ok := obj.Type().Underlying().(*types.Struct)
		if !ok {
			return nil
		}
		for i := 0; i < st.NumFields(); i++ {
			if st.Field(i).Name() == field {
				return st.Field(i).Type()
			}
		}
	}
	return nil
}

// stGet returns the current term of a state component, creating the entry constant lazily.
func (x *Exec) stGet(s *State, name, sort string) string {
	if t, ok := s.st[name]; ok {
		return t
	}
	c := "st0!" + name
	x.c.P.declare(c, fmt.Sprintf("(declare-const %s %s)", c, sort))
	x.stSorts[name] = sort
	return c
}

func (x *Exec) stSet(s *State, name, sort, term string) {
	s.ver++
	x.stSorts[name] = sort
	if x.con != nil && x.con.Opts["guard"] != "" && x.disc == nil {
		g, ok := s.ghost["guard"]
		if !ok {
			g = "false"
		}
		x.oblige(s, "guard", "write_after_"+x.con.Opts["guard"]+"."+name, g, nil)
	}
	s.st[name] = x.name(s, "st_"+name, sort, term)
	if x.disc != nil {
		x.disc.state[name] = true
	}
}

func (x *Exec) stHavoc(s *State, name string) {
	s.ver++
	sort, ok := x.stSorts[name]
	if !ok {
		return
	}
	s.st[name] = x.fresh(s, "hv_"+name, sort)
}

// errNotFound: the constant for collections.ErrNotFound
func (x *Exec) errConst(name string) string {
	n := "g." + sanitize(name)
	x.c.P.declare(n, fmt.Sprintf("(declare-const %s Int)", n))
	x.c.errGlobals[n] = true
	return n
}

// collCall: summaries of collections methods on a tagged receiver (assumption A-store).
func (x *Exec) collCall(s *State, method string, args []*Val, resT types.Type) (*Val, bool) {
	recv := args[0]
	if recv.Tag == nil || (recv.Tag.Kind != tagColl && recv.Tag.Kind != tagCollPtr) {
		return nil, false
	}
	ci := x.collInfo(recv.Tag)
	B := types.Typ[types.Bool]
	E := types.Universe.Lookup("error").Type()
	nilErr := &Val{T: E, S: "0"}
	notFound := x.errConst("cosmossdk.io/collections.ErrNotFound")
	x.c.note("A-store: collections." + ci.Kind + "." + method + " summarised over abstract state")
	switch ci.Kind + "." + method {
	case "Item.Get":
		has := x.stGet(s, ci.Name+".has", "Bool")
		val := x.stGet(s, ci.Name+".val", ci.VSort)
		v := x.valOf(s, ci.V, ite(has, val, x.zeroOf(ci.V)))
		return &Val{T: resT, Tup: []*Val{v, {T: E, S: ite(has, "0", notFound)}}}, true
	case "Item.Has":
		has := x.stGet(s, ci.Name+".has", "Bool")
		return &Val{T: resT, Tup: []*Val{{T: B, S: has}, nilErr}}, true
	case "Item.Set":
		x.stSet(s, ci.Name+".has", "Bool", "true")
		x.stSet(s, ci.Name+".val", ci.VSort, x.termOf(s, args[2]))
		x.writeHook(s, ci, nil, args[2])
		return nilErr, true
	case "Item.Remove":
		x.stSet(s, ci.Name+".has", "Bool", "false")
		return nilErr, true
	case "Sequence.Peek":
		val := x.stGet(s, ci.Name+".val", "Int")
		s.assume(intRange(types.Typ[types.Uint64], val))
		return &Val{T: resT, Tup: []*Val{{T: types.Typ[types.Uint64], S: val}, nilErr}}, true
	case "Sequence.Set":
		x.stSet(s, ci.Name+".val", "Int", x.termOf(s, args[2]))
		return nilErr, true
	case "Sequence.Next":
		val := x.stGet(s, ci.Name+".val", "Int")
		s.assume(intRange(types.Typ[types.Uint64], val))
		x.stSet(s, ci.Name+".val", "Int", wrapInt(types.Typ[types.Uint64], add(val, "1"), false, true))
		return &Val{T: resT, Tup: []*Val{{T: types.Typ[types.Uint64], S: val}, nilErr}}, true
	case "Map.Get":
		k := x.keyTerm(s, ci, args[2])
		dom := x.stGet(s, ci.Name+".dom", fmt.Sprintf("(Array %s Bool)", ci.KSort))
		val := x.stGet(s, ci.Name+".val", fmt.Sprintf("(Array %s %s)", ci.KSort, ci.VSort))
		has := sx("select", dom, k)
		vt := x.name(s, "get_"+ci.Name, ci.VSort, ite(has, sx("select", val, k), x.zeroOf(ci.V)))
		x.assumeInv(s, ci.V, vt)
		v := x.valOf(s, ci.V, vt)
		return &Val{T: resT, Tup: []*Val{v, {T: E, S: ite(has, "0", notFound)}}}, true
	case "Map.Has", "KeySet.Has":
		k := x.keyTerm(s, ci, args[2])
		dom := x.stGet(s, ci.Name+".dom", fmt.Sprintf("(Array %s Bool)", ci.KSort))
		return &Val{T: resT, Tup: []*Val{{T: B, S: sx("select", dom, k)}, nilErr}}, true
	case "Map.Set":
		k := x.keyTerm(s, ci, args[2])
		dom := x.stGet(s, ci.Name+".dom", fmt.Sprintf("(Array %s Bool)", ci.KSort))
		val := x.stGet(s, ci.Name+".val", fmt.Sprintf("(Array %s %s)", ci.KSort, ci.VSort))
		x.writeHook(s, ci, args[2], args[3])
		x.stSet(s, ci.Name+".dom", fmt.Sprintf("(Array %s Bool)", ci.KSort), sx("store", dom, k, "true"))
		x.stSet(s, ci.Name+".val", fmt.Sprintf("(Array %s %s)", ci.KSort, ci.VSort), sx("store", val, k, x.termOf(s, args[3])))
		return nilErr, true
	case "KeySet.Set":
		k := x.keyTerm(s, ci, args[2])
		dom := x.stGet(s, ci.Name+".dom", fmt.Sprintf("(Array %s Bool)", ci.KSort))
		x.stSet(s, ci.Name+".dom", fmt.Sprintf("(Array %s Bool)", ci.KSort), sx("store", dom, k, "true"))
		return nilErr, true
	case "Map.Remove", "KeySet.Remove":
		k := x.keyTerm(s, ci, args[2])
		dom := x.stGet(s, ci.Name+".dom", fmt.Sprintf("(Array %s Bool)", ci.KSort))
		x.stSet(s, ci.Name+".dom", fmt.Sprintf("(Array %s Bool)", ci.KSort), sx("store", dom, k, "false"))
		return nilErr, true
	}
	return nil, false
}

func (x *Exec) keyTerm(s *State, ci *CollInfo, k *Val) string {
	return x.termOf(s, k)
}

// writeHook: write-site obligations declared for a collection (//@ writesite in the contract).
func (x *Exec) writeHook(s *State, ci *CollInfo, key, val *Val) {
	if x.con == nil || x.disc != nil {
		return
	}
	for _, ws := range x.con.WriteSites {
		if ws.Coll != ci.Name {
			continue
		}
		x.counter["writesite."+ci.Name]++
		n := x.counter["writesite."+ci.Name]
		env := x.curSpecEnv(s)
		if env == nil {
			continue
		}
		vars := map[string]*Val{}
		for k, v := range env.vars {
			vars[k] = v
		}
		if key != nil {
			vars["key"] = key
		}
		vars["val"] = val
		env.vars = vars
		env.where = fmt.Sprintf("%s writesite %s", x.con.Key, ci.Name)
		t, err := x.evalSpec(env, ws.Clause.Expr)
		if err != nil {
			x.fail("%v", err)
			continue
		}
		lbl := ws.Clause.Label
		if lbl == "" {
			lbl = strings.ReplaceAll(ci.Name, ".", "_")
		}
		x.oblige(s, "writesite", fmt.Sprintf("%s#%d", lbl, n), t, ws.Clause.Props)
	}
}
