package main

import (
	"context"
	"fmt"
	"os"
	"os/exec"
	"path/filepath"
	"regexp"
	"sort"
	"strings"
	"sync"
	"time"
)

type SolveResult struct {
	Status  string // unsat, sat, unknown, timeout, error
	Solver  string
	Seconds float64
	Model   string
	Output  string
	File    string
	Bytes   int
}

type solverSpec struct {
	name string
	argv func(file string, timeoutS int) []string
	pre  string
}

var solvers = []solverSpec{
	{"z3-new", func(f string, t int) []string { return []string{"z3-new", fmt.Sprintf("-T:%d", t), f} }, ""},
	{"z3", func(f string, t int) []string { return []string{"z3", fmt.Sprintf("-T:%d", t), f} }, ""},
	{"cvc5", func(f string, t int) []string {
		return []string{"cvc5", "--produce-models", fmt.Sprintf("--tlimit=%d", t*1000), f}
	}, ""},
	// same solver, Groebner-basis step of the nonlinear arithmetic core switched off (decides several of the
	// fixed-point VCs instantly where the default configuration diverges)
	{"z3-new/nogrobner", func(f string, t int) []string {
		return []string{"z3-new", "smt.arith.nl.grobner=false", fmt.Sprintf("-T:%d", t), f}
	}, ""},
	{"z3-new/nogrobner-notangents", func(f string, t int) []string {
		return []string{"z3-new", "smt.arith.nl.grobner=false", "smt.arith.nl.tangents=false", fmt.Sprintf("-T:%d", t), f}
	}, ""},
	{"z3-new/seed5", func(f string, t int) []string {
		return []string{"z3-new", "smt.random_seed=5", "smt.arith.nl.grobner=false", fmt.Sprintf("-T:%d", t), f}
	}, ""},
	{"z3-new/seed11", func(f string, t int) []string {
		return []string{"z3-new", "smt.random_seed=11", fmt.Sprintf("-T:%d", t), f}
	}, ""},
	// the older simplex core: quantifier-heavy VCs with many integer offsets are seed-sensitive in the default core
	{"z3-new/arith2", func(f string, t int) []string {
		return []string{"z3-new", "smt.arith.solver=2", fmt.Sprintf("-T:%d", t), f}
	}, ""},
}

func (c *Ctx) errAxiom(body string) string {
	var gs []string
	for g := range c.errGlobals {
		if containsSym(body, g) {
			gs = append(gs, g)
		}
	}
	if len(gs) == 0 {
		return ""
	}
	sort.Strings(gs)
	return "(assert (distinct 0 " + strings.Join(gs, " ") + "))\n"
}

// buildQuery renders the SMT-LIB text of one obligation instance.
func (x *Exec) buildQuery(o *Oblig, wantModel bool) string {
	return x.buildQueryExtra(o, wantModel, "")
}

func (x *Exec) buildQueryExtra(o *Oblig, wantModel bool, extra string) string {
	d := obligStore[o]
	var body strings.Builder
	for _, l := range d.decls {
		body.WriteString(l)
		body.WriteString("\n")
	}
	for _, a := range d.pc {
		body.WriteString("(assert ")
		body.WriteString(a)
		body.WriteString(")\n")
	}
	if !o.Cover {
		body.WriteString("(assert (not ")
		body.WriteString(o.Goal)
		body.WriteString("))\n")
	}
	body.WriteString(extra)
	b := body.String()
	var sb strings.Builder
	sb.WriteString("(set-option :produce-models true)\n(set-logic ALL)\n")
	pre := x.c.P.render(b)
	lv := x.unfoldLevels
	if lv == 0 {
		lv = 2
	}
	if !x.exactDec {
		pre = abstractDec(pre)
	}
	pre, unf := unfoldRecs(pre, b, lv)
	sb.WriteString(pre)
	sb.WriteString("\n")
	sb.WriteString(x.c.errAxiom(pre + b))
	sb.WriteString(b)
	sb.WriteString(unf)
	sb.WriteString("(check-sat)\n")
	if wantModel {
		sb.WriteString("(get-model)\n")
	}
	if !x.exactDec {
		return abstractFloat(sb.String())
	}
	return sb.String()
}

// abstractFloat: the three float64 operations of the fee-rate test (uint64 -> float64, /, >) become uninterpreted
// functions when no other floating-point operator occurs in the query. Every model of the exact query is a model of
// the abstracted one (read the functions as the IEEE operations), so `unsat` carries over; a `sat` answer may be
// spurious and is only ever used as a replay candidate (the exact encoding is used when searching inputs).
// The mixed Int/Real/FP encoding otherwise makes every obligation of such a function time out.
func abstractFloat(t string) string {
	if !strings.Contains(t, "fp.") && !strings.Contains(t, "to_fp") {
		return t
	}
	u := strings.ReplaceAll(t, "((_ to_fp 11 53) RNE (to_real ", "(fp!i2f (fp!id ")
	u = strings.ReplaceAll(u, "(fp.div RNE ", "(fp!div ")
	u = strings.ReplaceAll(u, "(fp.gt ", "(fp!gt ")
	if strings.Contains(u, "fp.") || strings.Contains(u, "to_fp") {
		return t
	}
	decl := "(define-fun fp!id ((x Int)) Int x)\n(declare-fun fp!i2f (Int) Float64)\n(declare-fun fp!div (Float64 Float64) Float64)\n(declare-fun fp!gt (Float64 Float64) Bool)\n"
	return strings.Replace(u, "(set-logic ALL)\n", "(set-logic ALL)\n"+decl, 1)
}

func runSolver(sp solverSpec, file string, timeoutS int) SolveResult {
	return runSolverCtx(context.Background(), sp, file, timeoutS)
}

// runSolverCtx: the solver process is killed when parent is cancelled (a sibling of the portfolio has answered).
func runSolverCtx(parent context.Context, sp solverSpec, file string, timeoutS int) SolveResult {
	ctx, cancel := context.WithTimeout(parent, time.Duration(timeoutS+3)*time.Second)
	defer cancel()
	argv := sp.argv(file, timeoutS)
	t0 := time.Now()
	cmd := exec.CommandContext(ctx, argv[0], argv[1:]...)
	out, _ := cmd.CombinedOutput()
	el := time.Since(t0).Seconds()
	txt := string(out)
	first := strings.TrimSpace(strings.SplitN(txt, "\n", 2)[0])
	r := SolveResult{Solver: sp.name, Seconds: el, Output: trunc(txt, 4000), File: file}
	switch {
	case first == "unsat":
		r.Status = "unsat"
	case first == "sat":
		r.Status = "sat"
		if i := strings.Index(txt, "\n"); i >= 0 {
			r.Model = txt[i+1:]
		}
	case first == "unknown":
		r.Status = "unknown"
	case strings.Contains(first, "timeout") || ctx.Err() != nil:
		r.Status = "timeout"
	default:
		r.Status = "error"
	}
	return r
}

// solveQuery: a staged portfolio. Stage 1: z3-new alone (4 s) decides almost everything. Stage 2 (12 s): the three
// variants that decide what stage 1 does not (older simplex core, z3 4.8, another seed). Stage 3: every variant with the
// full budget. Within a stage the first decisive answer wins and the sibling processes are killed at once — left
// running they occupied the cores for the whole timeout and slowed every other query down several times over.
func solveQuery(file string, timeoutS int, cover bool) SolveResult {
	quick := timeoutS
	if quick > 4 {
		quick = 4
	}
	r := runSolver(solvers[0], file, quick)
	if r.Status == "unsat" || r.Status == "sat" {
		return r
	}
	byName := map[string]solverSpec{}
	for _, sp := range solvers {
		byName[sp.name] = sp
	}
	race := func(sps []solverSpec, budget int) (SolveResult, bool, []string) {
		ctx, cancel := context.WithCancel(context.Background())
		defer cancel()
		ch := make(chan SolveResult, len(sps))
		for _, sp := range sps {
			sp := sp
			go func() { ch <- runSolverCtx(ctx, sp, file, budget) }()
		}
		var last SolveResult
		var errs []string
		for range sps {
			rr := <-ch
			if rr.Status == "unsat" || rr.Status == "sat" {
				return rr, true, nil
			}
			if rr.Status == "error" {
				errs = append(errs, rr.Solver+": "+trunc(rr.Output, 300))
			} else {
				last = rr
			}
		}
		return last, false, errs
	}
	if timeoutS > 16 {
		if rr, ok, _ := race([]solverSpec{byName["z3-new/arith2"], byName["z3"], byName["z3-new/seed11"]}, 12); ok {
			return rr
		}
	}
	last, ok, errs := race(solvers, timeoutS)
	if ok {
		return last
	}
	if last.Status == "" {
		last = r
	}
	if last.Status == "error" || (len(errs) == len(solvers)) {
		last.Status = "error"
		last.Output = strings.Join(errs, "\n")
	}
	return last
}

type instResult struct {
	o *Oblig
	r SolveResult
}

func solveAll(x *Exec, obligs []*Oblig, workDir string, timeoutS, par int) []instResult {
	res := make([]instResult, len(obligs))
	var wg sync.WaitGroup
	sem := make(chan struct{}, par)
	for i, o := range obligs {
		i, o := i, o
		if !o.Cover && o.Goal == "true" {
			res[i] = instResult{o, SolveResult{Status: "unsat", Solver: "trivial"}}
			continue
		}
		q := x.buildQuery(o, true)
		file := filepath.Join(workDir, fmt.Sprintf("q%05d.smt2", i))
		os.WriteFile(file, []byte(q), 0o644)
		wg.Add(1)
		sem <- struct{}{}
		go func() {
			defer wg.Done()
			defer func() { <-sem }()
			var r SolveResult
			if o.Cover {
				// vacuity guard: only a proof of unsatisfiability counts against the contract
				r = runSolver(solvers[0], file, 2)
			} else {
				r = solveQuery(file, timeoutS, o.Cover)
			}
			r.Bytes = len(q)
			res[i] = instResult{o, r}
		}()
	}
	wg.Wait()
	return res
}

var decDefRe = regexp.MustCompile(`(?m)^\(define-fun (dec\.[a-z]+) \(((?:\([a-z]+ Int\) ?)+)\) Int .*$`)

// abstractDec replaces the exact definitions of the fixed-point operations by uninterpreted functions:
// proofs use only the bound lemmas asserted at each use (nonlinear div/mod definitions make the solvers diverge).
func abstractDec(pre string) string {
	return decDefRe.ReplaceAllStringFunc(pre, func(l string) string {
		m := decDefRe.FindStringSubmatch(l)
		n := strings.Count(m[2], "(")
		if m[1] == "dec.roundpos" || m[1] == "dec.round" {
			return l
		}
		return fmt.Sprintf("(declare-fun %s (%s) Int)", m[1], strings.TrimSpace(strings.Repeat("Int ", n)))
	})
}
