package main

import (
	"fmt"
	"regexp"
	"sort"
	"strings"
)

// ---------------------------------------------------------------------------
// Recursive spec functions are not left to the solvers' own (heuristic,
// solver-specific) treatment of define-fun-rec. Each recursive function is
// declared uninterpreted and, for every application occurring in the path
// assertions or the goal, its defining equation is asserted once (one level
// of unfolding). Everything provable this way holds for the real recursive
// function (which satisfies all of its defining equations); proofs become
// deterministic and portable across z3 / cvc5.
// ---------------------------------------------------------------------------

type recDef struct {
	name   string
	params []string
	sorts  []string
	ret    string
	body   *sexp
	text   string
}

var recHeadRe = regexp.MustCompile(`^\(define-fun-rec\s+([^\s()]+)\s+`)

func parseRecDef(text string) *recDef {
	xs := parseSexps(text)
	if len(xs) != 1 || len(xs[0].list) != 5 || xs[0].list[0].atom != "define-fun-rec" {
		return nil
	}
	l := xs[0].list
	d := &recDef{name: l[1].atom, ret: l[3].String(), body: l[4], text: text}
	for _, p := range l[2].list {
		if len(p.list) != 2 {
			return nil
		}
		d.params = append(d.params, p.list[0].atom)
		d.sorts = append(d.sorts, p.list[1].String())
	}
	return d
}

func substSexp(e *sexp, m map[string]string) string {
	if e.list == nil {
		if r, ok := m[e.atom]; ok {
			return r
		}
		return e.atom
	}
	if len(e.list) > 0 && e.list[0].list == nil {
		switch e.list[0].atom {
		case "let":
			// (let ((x e) ...) body): binders shadow
			if len(e.list) == 3 {
				m2 := map[string]string{}
				for k, v := range m {
					m2[k] = v
				}
				var bs []string
				for _, b := range e.list[1].list {
					if len(b.list) == 2 {
						bs = append(bs, "("+b.list[0].atom+" "+substSexp(b.list[1], m)+")")
						delete(m2, b.list[0].atom)
					}
				}
				return "(let (" + strings.Join(bs, " ") + ") " + substSexp(e.list[2], m2) + ")"
			}
		case "forall", "exists":
			if len(e.list) == 3 {
				m2 := map[string]string{}
				for k, v := range m {
					m2[k] = v
				}
				for _, b := range e.list[1].list {
					if len(b.list) == 2 {
						delete(m2, b.list[0].atom)
					}
				}
				return "(" + e.list[0].atom + " " + e.list[1].String() + " " + substSexp(e.list[2], m2) + ")"
			}
		}
	}
	parts := make([]string, len(e.list))
	for i, c := range e.list {
		parts[i] = substSexp(c, m)
	}
	return "(" + strings.Join(parts, " ") + ")"
}

// collectApps finds applications of fn in e that do not mention quantifier-bound variables.
func collectApps(e *sexp, fn string, bound map[string]bool, out map[string]*sexp) {
	if e.list == nil {
		return
	}
	if len(e.list) > 0 && e.list[0].list == nil {
		switch e.list[0].atom {
		case "forall", "exists":
			if len(e.list) == 3 {
				b2 := map[string]bool{}
				for k := range bound {
					b2[k] = true
				}
				for _, b := range e.list[1].list {
					if len(b.list) == 2 {
						b2[b.list[0].atom] = true
					}
				}
				collectApps(e.list[2], fn, b2, out)
				return
			}
		case "let":
			if len(e.list) == 3 {
				b2 := map[string]bool{}
				for k := range bound {
					b2[k] = true
				}
				for _, b := range e.list[1].list {
					if len(b.list) == 2 {
						collectApps(b.list[1], fn, bound, out)
						b2[b.list[0].atom] = true
					}
				}
				collectApps(e.list[2], fn, b2, out)
				return
			}
		case fn:
			if !mentions(e, bound) {
				out[e.String()] = e
			}
		}
	}
	for _, c := range e.list {
		collectApps(c, fn, bound, out)
	}
}

func mentions(e *sexp, bound map[string]bool) bool {
	if len(bound) == 0 {
		return false
	}
	if e.list == nil {
		return bound[e.atom]
	}
	for _, c := range e.list {
		if mentions(c, bound) {
			return true
		}
	}
	return false
}

// unfoldRecs rewrites the prelude text and returns the extra unfolding assertions for body.
func unfoldRecs(prelude, body string, levels int) (string, string) {
	var defs []*recDef
	var outLines []string
	for _, l := range strings.Split(prelude, "\n") {
		t := strings.TrimSpace(l)
		if recHeadRe.MatchString(t) {
			if d := parseRecDef(t); d != nil {
				defs = append(defs, d)
				outLines = append(outLines, fmt.Sprintf("(declare-fun %s (%s) %s)", d.name, strings.Join(d.sorts, " "), d.ret))
				continue
			}
		}
		outLines = append(outLines, l)
	}
	if len(defs) == 0 {
		return prelude, ""
	}
	var extra strings.Builder
	done := map[string]bool{}
	text := body
	// non-recursive define-funs of the prelude may also mention recursive functions, but only with their own parameters
	for lvl := 0; lvl < levels; lvl++ {
		exprs := parseSexps(text)
		var added strings.Builder
		for _, d := range defs {
			apps := map[string]*sexp{}
			for _, e := range exprs {
				collectApps(e, d.name, nil, apps)
			}
			keys := make([]string, 0, len(apps))
			for k := range apps {
				keys = append(keys, k)
			}
			sort.Strings(keys) // deterministic query text: solver behaviour depends on assertion order
			for _, k := range keys {
				app := apps[k]
				if done[k] || len(app.list) != len(d.params)+1 {
					continue
				}
				done[k] = true
				m := map[string]string{}
				for i, p := range d.params {
					m[p] = app.list[i+1].String()
				}
				added.WriteString(fmt.Sprintf("(assert (= %s %s))\n", k, substSexp(d.body, m)))
			}
		}
		if added.Len() == 0 {
			break
		}
		extra.WriteString(added.String())
		text = added.String()
	}
	return strings.Join(outLines, "\n"), extra.String()
}
