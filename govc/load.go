package main

import (
	"fmt"
	"go/types"
	"os"
	"sort"
	"strings"

	"golang.org/x/tools/go/packages"
	"golang.org/x/tools/go/ssa"
	"golang.org/x/tools/go/ssa/ssautil"
)

type Program struct {
	Dir   string
	Pkgs  []*packages.Package
	SSA   *ssa.Program
	SPkgs []*ssa.Package
	Funcs map[string]*ssa.Function // key: "<pkgpath>.<recv>.<name>" in contract syntax
	All   map[*ssa.Function]bool
}

const modPath = "github.com/goatnetwork/goat"

func loadProgram(dir string, patterns ...string) (*Program, error) {
	if len(patterns) == 0 {
		patterns = []string{"./x/...", "./app/...", "./pkg/..."}
	}
	cfg := &packages.Config{
		Mode:       packages.LoadSyntax | packages.NeedModule,
		Dir:        dir,
		BuildFlags: []string{"-tags=verif"},
		Env:        append(os.Environ(), "GOFLAGS=-mod=mod", "GOPROXY=off", "GOSUMDB=off", "GOTOOLCHAIN=local"),
		Tests:      false,
	}
	// LoadAllSyntax is needed so that ssa has bodies of dependency functions we inline
	// (only /repo functions are ever inlined, so LoadSyntax of /repo packages is enough).
	pkgs, err := packages.Load(cfg, patterns...)
	if err != nil {
		return nil, err
	}
	nerr := 0
	packages.Visit(pkgs, nil, func(p *packages.Package) {
		if strings.HasPrefix(p.PkgPath, modPath) {
			for _, e := range p.Errors {
				fmt.Fprintf(os.Stderr, "load error: %v\n", e)
				nerr++
			}
		}
	})
	if nerr > 0 {
		return nil, fmt.Errorf("%d package errors (the tree does not compile)", nerr)
	}
	prog, spkgs := ssautil.Packages(pkgs, ssa.GlobalDebug|ssa.InstantiateGenerics)
	for _, sp := range spkgs {
		if sp != nil {
			sp.Build()
		}
	}
	p := &Program{Dir: dir, Pkgs: pkgs, SSA: prog, SPkgs: spkgs, Funcs: map[string]*ssa.Function{}, All: map[*ssa.Function]bool{}}
	for fn := range ssautil.AllFunctions(prog) {
		if fn.Pkg == nil || fn.Pkg.Pkg == nil || !strings.HasPrefix(fn.Pkg.Pkg.Path(), modPath) {
			continue
		}
		if fn.Synthetic != "" && fn.Parent() == nil {
			continue
		}
		p.All[fn] = true
		p.Funcs[funcKey(fn)] = fn
	}
	return p, nil
}

// funcKey renders the contract-file name of a function:
//
//	<pkgpath>.Name, <pkgpath>.(Recv).Name, <pkgpath>.(*Recv).Name, and Parent$N for closures.
func funcKey(fn *ssa.Function) string {
	if fn.Parent() != nil {
		// closure: name is Parent$N
		par := fn.Parent()
		suffix := strings.TrimPrefix(fn.Name(), par.Name())
		return funcKey(par) + suffix
	}
	pkg := ""
	if fn.Pkg != nil {
		pkg = fn.Pkg.Pkg.Path()
	}
	if recv := fn.Signature.Recv(); recv != nil {
		rt := recv.Type()
		star := ""
		if p, ok := rt.(*types.Pointer); ok {
			rt = p.Elem()
			star = "*"
		}
		name := rt.String()
		if n, ok := rt.(*types.Named); ok {
			name = n.Obj().Name()
		}
		return fmt.Sprintf("%s.(%s%s).%s", pkg, star, name, fn.Name())
	}
	return pkg + "." + fn.Name()
}

func (p *Program) sortedFuncs() []string {
	var ks []string
	for k := range p.Funcs {
		ks = append(ks, k)
	}
	sort.Strings(ks)
	return ks
}

func shortPkg(path string) string {
	s := strings.TrimPrefix(path, modPath+"/")
	s = strings.TrimPrefix(s, "x/")
	return s
}

// importPath resolves an import alias / package name as used in the source files of package pkgPath.
var importPathCache = map[string]string{}

func (p *Program) importPath(pkgPath, name string) (string, bool) {
	ck := pkgPath + "\x00" + name
	if r, ok := importPathCache[ck]; ok {
		return r, r != ""
	}
	r, ok := p.importPathSlow(pkgPath, name)
	if !ok {
		r = ""
	}
	importPathCache[ck] = r
	return r, ok
}

func (p *Program) importPathSlow(pkgPath, name string) (string, bool) {
	var res string
	found := false
	packages.Visit(p.Pkgs, nil, func(pk *packages.Package) {
		if pk.PkgPath != pkgPath || found {
			return
		}
		for _, f := range pk.Syntax {
			for _, im := range f.Imports {
				path := strings.Trim(im.Path.Value, "\"")
				alias := ""
				if im.Name != nil {
					alias = im.Name.Name
				} else if ip, ok := pk.Imports[path]; ok {
					alias = ip.Name
				}
				if alias == name {
					res, found = path, true
					return
				}
			}
		}
	})
	return res, found
}
