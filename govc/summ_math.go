package main

import (
	"fmt"
	"go/types"
	"strings"
)

// ---------------------------------------------------------------------------
// cosmossdk.io/math.Int, LegacyDec, math/big.Int, sdk.Coins, time.Time
// (assumptions A-sdk / A-econ: these are mathematical integers; the 256/315-bit
// overflow panics of the SDK types are not modelled).
// ---------------------------------------------------------------------------

const decP = "1000000000000000000"
const decH = "500000000000000000"

func declDec(c *Ctx) {
	c.P.axiom("decfuns", []string{"tdiv", "dec.round", "dec.quo", "dec.mul", "dec.multrunc", "dec.trunc", "dec.quotrunc", "ipow2"},
		"(define-fun tdiv ((a Int) (b Int)) Int (ite (>= a 0) (ite (> b 0) (div a b) (- (div a (- b)))) (ite (> b 0) (- (div (- a) b)) (div (- a) (- b)))))\n"+
			"(define-fun dec.roundpos ((x Int)) Int (ite (< (mod x "+decP+") "+decH+") (div x "+decP+") (ite (> (mod x "+decP+") "+decH+") (+ (div x "+decP+") 1) (ite (= (mod (div x "+decP+") 2) 0) (div x "+decP+") (+ (div x "+decP+") 1)))))\n"+
			"(define-fun dec.round ((x Int)) Int (ite (>= x 0) (dec.roundpos x) (- (dec.roundpos (- x)))))\n"+
			"(define-fun dec.quo ((a Int) (b Int)) Int (dec.round (tdiv (* a "+decP+decP[1:]+") b)))\n"+
			"(define-fun dec.mul ((a Int) (b Int)) Int (dec.round (* a b)))\n"+
			"(define-fun dec.multrunc ((a Int) (b Int)) Int (tdiv (* a b) "+decP+"))\n"+
			"(define-fun dec.trunc ((a Int)) Int (tdiv a "+decP+"))\n"+
			"(define-fun dec.quotrunc ((a Int) (b Int)) Int (tdiv (tdiv (* a "+decP+decP[1:]+") b) "+decP+"))\n"+
			"(define-fun-rec ipow2 ((n Int)) Int (ite (<= n 0) 1 (* 2 (ipow2 (- n 1)))))\n"+
			// lemma (by induction on n): 2^n >= 1
			"(assert (forall ((n Int)) (! (>= (ipow2 n) 1) :pattern ((ipow2 n)))))")
}

func (x *Exec) coinSorts() (coinsSort, coinSort string, coinT types.Type) {
	for _, p := range x.prog.SSA.AllPackages() {
		if p.Pkg.Path() == "github.com/cosmos/cosmos-sdk/types" {
			if o := p.Pkg.Scope().Lookup("Coin"); o != nil {
				coinT = o.Type()
			}
		}
	}
	if coinT == nil {
		return "", "", nil
	}
	coinSort = x.c.sortOf(coinT)
	coinsSort = x.c.slcSort(coinSort)
	x.c.P.declare("coins.amt", fmt.Sprintf("(declare-fun coins.amt (%s Bytes) Int)", coinsSort))
	x.c.P.declare("coins.wf", fmt.Sprintf("(declare-fun coins.wf (%s) Bool)", coinsSort))
	x.c.P.declare("coins.allgte", fmt.Sprintf("(declare-fun coins.allgte (%s %s) Bool)", coinsSort, coinsSort))
	si := x.c.structs[coinT.String()]
	if si != nil {
		den, amt := si.Fields[0].Acc, si.Fields[1].Acc
		x.c.P.axiom("coins_ax", []string{"coins.amt", "coins.wf", "coins.allgte"},
			fmt.Sprintf("(assert (forall ((c %s) (d Bytes)) (! (=> (coins.wf c) (>= (coins.amt c d) 0)) :pattern ((coins.amt c d)))))\n", coinsSort)+
				// elements of a well-formed Coins: positive amounts, amountOf(denom_i) = amount_i, distinct denoms
				fmt.Sprintf("(assert (forall ((c %s) (i Int)) (! (=> (and (coins.wf c) (<= 0 i) (< i (len_%s c))) (and (> (%s (select (arr_%s c) (+ (off_%s c) i))) 0) (= (coins.amt c (%s (select (arr_%s c) (+ (off_%s c) i)))) (%s (select (arr_%s c) (+ (off_%s c) i)))))) :pattern ((select (arr_%s c) (+ (off_%s c) i))))))\n",
					coinsSort, coinsSort, amt, coinsSort, coinsSort, den, coinsSort, coinsSort, amt, coinsSort, coinsSort, coinsSort, coinsSort)+
				fmt.Sprintf("(assert (forall ((c %s) (i Int) (j Int)) (! (=> (and (coins.wf c) (<= 0 i) (< i j) (< j (len_%s c))) (not (= (%s (select (arr_%s c) (+ (off_%s c) i))) (%s (select (arr_%s c) (+ (off_%s c) j)))))) :pattern ((select (arr_%s c) (+ (off_%s c) i)) (select (arr_%s c) (+ (off_%s c) j))))))\n",
					coinsSort, coinsSort, den, coinsSort, coinsSort, den, coinsSort, coinsSort, coinsSort, coinsSort, coinsSort, coinsSort)+
				fmt.Sprintf("(assert (forall ((c %s)) (! (=> (= (len_%s c) 0) (forall ((d Bytes)) (= (coins.amt c d) 0))) :pattern ((coins.wf c)))))\n", coinsSort, coinsSort)+
				fmt.Sprintf("(assert (forall ((a %s) (b %s) (d Bytes)) (! (=> (coins.allgte a b) (>= (coins.amt a d) (coins.amt b d))) :pattern ((coins.allgte a b) (coins.amt b d)))))", coinsSort, coinsSort))
	}
	return
}

// decDefs: name of a fixed-point result -> (operation, operands), for composite lemmas
var decDefs = map[string][3]string{}

// unscale: X for a term (* X 10^18)
func unscale(t string) (string, bool) {
	const suf = " 1000000000000000000)"
	if strings.HasPrefix(t, "(* ") && strings.HasSuffix(t, suf) {
		return t[3 : len(t)-len(suf)], true
	}
	return "", false
}

func init() {
	I := func(x *Exec, s *State, a *Val) string { return x.termOf(s, a) }
	B := types.Typ[types.Bool]
	reg := func(names []string, f func(x *Exec, s *State, args []*Val, resT types.Type) (*Val, bool)) {
		for _, n := range names {
			summaryRegistry[n] = f
		}
	}
	bin := func(op func(a, b string) string) func(x *Exec, s *State, args []*Val, resT types.Type) (*Val, bool) {
		return func(x *Exec, s *State, args []*Val, resT types.Type) (*Val, bool) {
			declDec(x.c)
			return x.valOf(s, resT, op(I(x, s, args[0]), I(x, s, args[1]))), true
		}
	}
	un := func(op func(a string) string) func(x *Exec, s *State, args []*Val, resT types.Type) (*Val, bool) {
		return func(x *Exec, s *State, args []*Val, resT types.Type) (*Val, bool) {
			declDec(x.c)
			return x.valOf(s, resT, op(I(x, s, args[0]))), true
		}
	}
	mi := "(cosmossdk.io/math.Int)."
	reg([]string{mi + "Add", "(cosmossdk.io/math.LegacyDec).Add"}, bin(func(a, b string) string { return add(a, b) }))
	reg([]string{mi + "Sub", "(cosmossdk.io/math.LegacyDec).Sub"}, bin(func(a, b string) string { return sub(a, b) }))
	reg([]string{mi + "Mul"}, bin(func(a, b string) string { return sx("*", a, b) }))
	summaryRegistry[mi+"Quo"] = func(x *Exec, s *State, args []*Val, resT types.Type) (*Val, bool) {
		declDec(x.c)
		x.panicIf(s, eq(I(x, s, args[1]), "0"), "div_zero")
		return x.valOf(s, resT, sx("tdiv", I(x, s, args[0]), I(x, s, args[1]))), true
	}
	for _, t := range []string{mi, "(cosmossdk.io/math.LegacyDec)."} {
		reg([]string{t + "IsZero"}, un(func(a string) string { return eq(a, "0") }))
		reg([]string{t + "IsNegative"}, un(func(a string) string { return sx("<", a, "0") }))
		reg([]string{t + "IsPositive"}, un(func(a string) string { return sx(">", a, "0") }))
		reg([]string{t + "LT"}, bin(func(a, b string) string { return sx("<", a, b) }))
		reg([]string{t + "LTE"}, bin(func(a, b string) string { return sx("<=", a, b) }))
		reg([]string{t + "GT"}, bin(func(a, b string) string { return sx(">", a, b) }))
		reg([]string{t + "GTE"}, bin(func(a, b string) string { return sx(">=", a, b) }))
		reg([]string{t + "Equal"}, bin(func(a, b string) string { return eq(a, b) }))
		reg([]string{t + "IsNil"}, un(func(a string) string { return "false" }))
	}
	reg([]string{mi + "Sign"}, un(func(a string) string { return ite(sx(">", a, "0"), "1", ite(sx("<", a, "0"), "(- 1)", "0")) }))
	reg([]string{mi + "IsUint64"}, un(func(a string) string { return and(sx(">=", a, "0"), sx("<", a, pow2(64))) }))
	reg([]string{mi + "IsInt64"}, un(func(a string) string { return and(sx(">=", a, "(- "+pow2(63)+")"), sx("<", a, pow2(63))) }))
	summaryRegistry[mi+"Uint64"] = func(x *Exec, s *State, args []*Val, resT types.Type) (*Val, bool) {
		a := I(x, s, args[0])
		x.panicIf(s, not(and(sx(">=", a, "0"), sx("<", a, pow2(64)))), "int_uint64_range")
		return &Val{T: resT, S: a}, true
	}
	summaryRegistry[mi+"Int64"] = func(x *Exec, s *State, args []*Val, resT types.Type) (*Val, bool) {
		a := I(x, s, args[0])
		x.panicIf(s, not(and(sx(">=", a, "(- "+pow2(63)+")"), sx("<", a, pow2(63)))), "int_int64_range")
		return &Val{T: resT, S: a}, true
	}
	// constructors
	idc := func(x *Exec, s *State, args []*Val, resT types.Type) (*Val, bool) {
		return x.valOf(s, resT, I(x, s, args[0])), true
	}
	reg([]string{"cosmossdk.io/math.NewInt", "cosmossdk.io/math.NewIntFromUint64"}, idc)
	reg([]string{"cosmossdk.io/math.ZeroInt"}, func(x *Exec, s *State, args []*Val, resT types.Type) (*Val, bool) { return x.valOf(s, resT, "0"), true })
	reg([]string{"cosmossdk.io/math.OneInt"}, func(x *Exec, s *State, args []*Val, resT types.Type) (*Val, bool) { return x.valOf(s, resT, "1"), true })
	reg([]string{"cosmossdk.io/math.LegacyZeroDec"}, func(x *Exec, s *State, args []*Val, resT types.Type) (*Val, bool) { return x.valOf(s, resT, "0"), true })
	reg([]string{"cosmossdk.io/math.LegacyOneDec"}, func(x *Exec, s *State, args []*Val, resT types.Type) (*Val, bool) {
		return x.valOf(s, resT, decP), true
	})
	bigOf := func(x *Exec, s *State, a *Val) string {
		if a.Ptr == nil {
			return "0"
		}
		// nil *big.Int is treated as zero by the SDK constructors
		return ite(a.Ptr.Nil, "0", x.loadTerm(s, a.Ptr))
	}
	reg([]string{"cosmossdk.io/math.NewIntFromBigInt", "cosmossdk.io/math.NewIntFromBigIntMut"}, func(x *Exec, s *State, args []*Val, resT types.Type) (*Val, bool) {
		return x.valOf(s, resT, bigOf(x, s, args[0])), true
	})
	scale := func(x *Exec, s *State, args []*Val, resT types.Type) (*Val, bool) {
		declDec(x.c)
		a := I(x, s, args[0])
		if args[0].Ptr != nil {
			a = bigOf(x, s, args[0])
		}
		return x.valOf(s, resT, sx("*", a, decP)), true
	}
	reg([]string{"cosmossdk.io/math.LegacyNewDec", "cosmossdk.io/math.LegacyNewDecFromInt", "cosmossdk.io/math.LegacyNewDecFromBigInt"}, scale)
	summaryRegistry["cosmossdk.io/math.LegacyNewDecWithPrec"] = func(x *Exec, s *State, args []*Val, resT types.Type) (*Val, bool) {
		p, ok := isNumLit(args[1].S)
		if !ok || p < 0 || p > 18 {
			return nil, false
		}
		m := "1" + strings.Repeat("0", int(18-p))
		return x.valOf(s, resT, sx("*", I(x, s, args[0]), m)), true
	}
	ld := "(cosmossdk.io/math.LegacyDec)."
	// LegacyDec operations: the result is bound to the (exactly defined) spec function; in proofs the definitions
	// are abstracted (see abstractDec) and only the bound lemmas below — consequences of the definitions — are used.
	decOp := func(fn string, lemma func(r, a, b string) string, div bool) func(x *Exec, s *State, args []*Val, resT types.Type) (*Val, bool) {
		return func(x *Exec, s *State, args []*Val, resT types.Type) (*Val, bool) {
			declDec(x.c)
			a := I(x, s, args[0])
			b := ""
			var r string
			if len(args) > 1 {
				b = I(x, s, args[1])
				if div {
					x.panicIf(s, eq(b, "0"), "div_zero")
				}
				r = x.name(s, "dec", "Int", sx(fn, a, b))
			} else {
				r = x.name(s, "dec", "Int", sx(fn, a))
			}
			s.assume(lemma(r, a, b))
			decDefs[r] = [3]string{fn, a, b}
			if fn == "dec.trunc" {
				// L-share: r = trunc(multrunc(Xa*P, quotrunc(Xb*P, Xc*P))) ==> r*Xc <= Xa*Xb for Xa, Xb >= 0, Xc > 0.
				// A consequence of the three bound lemmas above (r*P <= m, m*P <= Xa*P*q, q*Xc*P <= Xb*P*P), stated in the
				// unscaled monomials the reward invariants use; machine-checked on its own: /verif/lemmas/dec_share.smt2.
				// Without it the proof has to multiply the three inequalities itself and is seed-sensitive.
				if m, ok := decDefs[a]; ok && m[0] == "dec.multrunc" {
					if q, ok := decDefs[m[2]]; ok && q[0] == "dec.quotrunc" {
						xa, okA := unscale(m[1])
						xb, okB := unscale(q[1])
						xc, okC := unscale(q[2])
						if okA && okB && okC {
							x.c.note("L-share: composite bound lemma for TruncateInt(MulTruncate(a, QuoTruncate(b, c))) (machine-checked consequence of the bound lemmas)")
							s.assume(implies(and(sx(">=", xa, "0"), sx(">=", xb, "0"), sx(">", xc, "0")), sx("<=", sx("*", r, xc), sx("*", xa, xb))))
						}
					}
				}
			}
			return x.valOf(s, resT, r), true
		}
	}
	P := decP
	nonneg := func(r, a, b string) string { return implies(and(sx(">=", a, "0"), sx(">=", b, "0")), sx(">=", r, "0")) }
	summaryRegistry[ld+"Quo"] = decOp("dec.quo", func(r, a, b string) string {
		// |r - a*P/b| <= 1/2 (+1 for the inner truncation)
		return implies(and(sx(">=", a, "0"), sx(">", b, "0")), and(sx(">=", r, "0"), sx("<=", sx("*", sx("-", r, "1"), b), sx("*", a, P)), sx(">=", sx("*", sx("+", r, "1"), b), sx("*", a, P))))
	}, true)
	summaryRegistry[ld+"QuoTruncate"] = decOp("dec.quotrunc", func(r, a, b string) string {
		return implies(and(sx(">=", a, "0"), sx(">", b, "0")), and(sx(">=", r, "0"), sx("<=", sx("*", r, b), sx("*", a, P)), sx(">", sx("*", sx("+", r, "2"), b), sx("*", a, P))))
	}, true)
	summaryRegistry[ld+"Mul"] = decOp("dec.mul", func(r, a, b string) string {
		return and(nonneg(r, a, b), implies(and(sx(">=", a, "0"), sx(">=", b, "0")), and(sx("<=", sx("*", sx("-", r, "1"), P), sx("*", a, b)), sx(">=", sx("*", sx("+", r, "1"), P), sx("*", a, b)))))
	}, false)
	summaryRegistry[ld+"MulTruncate"] = decOp("dec.multrunc", func(r, a, b string) string {
		return implies(and(sx(">=", a, "0"), sx(">=", b, "0")), and(sx(">=", r, "0"), sx("<=", sx("*", r, P), sx("*", a, b)), sx(">", sx("*", sx("+", r, "1"), P), sx("*", a, b))))
	}, false)
	summaryRegistry[ld+"TruncateInt"] = decOp("dec.trunc", func(r, a, b string) string {
		return implies(sx(">=", a, "0"), and(sx(">=", r, "0"), sx("<=", sx("*", r, P), a), sx(">", sx("*", sx("+", r, "1"), P), a)))
	}, false)
	reg([]string{mi + "String", ld + "String", "(*math/big.Int).String"}, func(x *Exec, s *State, args []*Val, resT types.Type) (*Val, bool) {
		return x.freshVal(s, resT, "str"), true
	})
	// ---- math/big.Int (pointer receivers; value semantics through the object store) ----
	newBig := func(x *Exec, s *State, resT types.Type, term string) *Val {
		id := x.newObj(s, deref(resT), "big", term, true)
		return &Val{T: resT, Ptr: &Ptr{Obj: id, Nil: "false"}}
	}
	reg([]string{mi + "BigInt", mi + "BigIntMut"}, func(x *Exec, s *State, args []*Val, resT types.Type) (*Val, bool) {
		return newBig(x, s, resT, I(x, s, args[0])), true
	})
	summaryRegistry["math/big.NewInt"] = func(x *Exec, s *State, args []*Val, resT types.Type) (*Val, bool) {
		return newBig(x, s, resT, I(x, s, args[0])), true
	}
	setRecv := func(x *Exec, s *State, recv *Val, term string, resT types.Type) (*Val, bool) {
		if recv.Ptr == nil {
			return nil, false
		}
		x.panicIf(s, recv.Ptr.Nil, "nil_bigint")
		x.storeTerm(s, recv.Ptr, x.name(s, "big", "Int", term))
		return &Val{T: resT, Ptr: recv.Ptr}, true
	}
	bigBin := func(op func(a, b string) string) func(x *Exec, s *State, args []*Val, resT types.Type) (*Val, bool) {
		return func(x *Exec, s *State, args []*Val, resT types.Type) (*Val, bool) {
			declDec(x.c)
			return setRecv(x, s, args[0], op(bigOf(x, s, args[1]), bigOf(x, s, args[2])), resT)
		}
	}
	bp := "(*math/big.Int)."
	summaryRegistry[bp+"Add"] = bigBin(func(a, b string) string { return add(a, b) })
	summaryRegistry[bp+"Sub"] = bigBin(func(a, b string) string { return sub(a, b) })
	summaryRegistry[bp+"Mul"] = bigBin(func(a, b string) string { return sx("*", a, b) })
	summaryRegistry[bp+"Quo"] = bigBin(func(a, b string) string { return sx("tdiv", a, b) })
	summaryRegistry[bp+"Div"] = bigBin(func(a, b string) string { return sx("div", a, b) }) // Euclidean, as SMT-LIB div
	summaryRegistry[bp+"Mod"] = bigBin(func(a, b string) string { return sx("mod", a, b) })
	summaryRegistry[bp+"Set"] = func(x *Exec, s *State, args []*Val, resT types.Type) (*Val, bool) {
		return setRecv(x, s, args[0], bigOf(x, s, args[1]), resT)
	}
	summaryRegistry[bp+"SetBytes"] = func(x *Exec, s *State, args []*Val, resT types.Type) (*Val, bool) {
		x.c.P.declare("bytes2nat", "(declare-fun bytes2nat (Bytes) Int)")
		x.c.P.axiom("bytes2nat_ax", []string{"bytes2nat"}, "(assert (forall ((b Bytes)) (! (>= (bytes2nat b) 0) :pattern ((bytes2nat b)))))")
		return setRecv(x, s, args[0], sx("bytes2nat", x.termOf(s, args[1])), resT)
	}
	summaryRegistry[bp+"Exp"] = func(x *Exec, s *State, args []*Val, resT types.Type) (*Val, bool) {
		// only base 2 with nil modulus is supported (x/locking halving schedule)
		declDec(x.c)
		b := bigOf(x, s, args[1])
		if args[3].Ptr == nil || args[3].Ptr.Nil != "true" {
			return nil, false
		}
		e := bigOf(x, s, args[2])
		r := x.fresh(s, "exp", "Int")
		s.assume(implies(and(eq(b, "2"), sx(">=", e, "0")), eq(r, sx("ipow2", e))))
		s.assume(implies(not(eq(b, "2")), sx(">=", r, "0")))
		return setRecv(x, s, args[0], r, resT)
	}
	summaryRegistry[bp+"Sign"] = func(x *Exec, s *State, args []*Val, resT types.Type) (*Val, bool) {
		a := bigOf(x, s, args[0])
		return &Val{T: resT, S: ite(sx(">", a, "0"), "1", ite(sx("<", a, "0"), "(- 1)", "0"))}, true
	}
	summaryRegistry[bp+"Cmp"] = func(x *Exec, s *State, args []*Val, resT types.Type) (*Val, bool) {
		a, b := bigOf(x, s, args[0]), bigOf(x, s, args[1])
		return &Val{T: resT, S: ite(sx(">", a, b), "1", ite(sx("<", a, b), "(- 1)", "0"))}, true
	}
	summaryRegistry[bp+"Int64"] = func(x *Exec, s *State, args []*Val, resT types.Type) (*Val, bool) {
		a := bigOf(x, s, args[0])
		return &Val{T: resT, S: wrapMod(resT, a)}, true
	}
	summaryRegistry[bp+"Uint64"] = func(x *Exec, s *State, args []*Val, resT types.Type) (*Val, bool) {
		a := bigOf(x, s, args[0])
		return &Val{T: resT, S: sx("mod", ite(sx(">=", a, "0"), a, sx("-", a)), pow2(64))}, true
	}
	summaryRegistry[bp+"IsUint64"] = func(x *Exec, s *State, args []*Val, resT types.Type) (*Val, bool) {
		a := bigOf(x, s, args[0])
		return &Val{T: B, S: and(sx(">=", a, "0"), sx("<", a, pow2(64)))}, true
	}
	// ---- go-ethereum common.Address / Hash: fixed-size byte arrays ----
	idb := func(x *Exec, s *State, args []*Val, resT types.Type) (*Val, bool) {
		return &Val{T: resT, S: x.termOf(s, args[0])}, true
	}
	reg([]string{"(github.com/ethereum/go-ethereum/common.Address).Bytes", "(github.com/ethereum/go-ethereum/common.Hash).Bytes"}, idb)
	// (BytesToHash / BytesToAddress are summarised in summ_goat.go)
	// ---- time.Time / Duration as nanoseconds ----
	tt := "(time.Time)."
	reg([]string{tt + "Sub"}, bin(func(a, b string) string { return sub(a, b) }))
	reg([]string{tt + "Add"}, bin(func(a, b string) string { return add(a, b) }))
	reg([]string{tt + "After"}, bin(func(a, b string) string { return sx(">", a, b) }))
	reg([]string{tt + "Before"}, bin(func(a, b string) string { return sx("<", a, b) }))
	reg([]string{tt + "Equal"}, bin(func(a, b string) string { return eq(a, b) }))
	reg([]string{tt + "Compare"}, bin(func(a, b string) string { return ite(sx("<", a, b), "(- 1)", ite(sx(">", a, b), "1", "0")) }))
	reg([]string{tt + "UTC", tt + "Local", tt + "Round"}, un(func(a string) string { return a }))
	reg([]string{tt + "IsZero"}, un(func(a string) string { return eq(a, "timezero") }))
	reg([]string{tt + "UnixNano"}, un(func(a string) string { return a }))
	reg([]string{tt + "Unix"}, un(func(a string) string { return sx("div", a, "1000000000") }))
	// ---- sdk.Coins ----
	sc := "(github.com/cosmos/cosmos-sdk/types.Coins)."
	summaryRegistry["github.com/cosmos/cosmos-sdk/types.NewCoin"] = func(x *Exec, s *State, args []*Val, resT types.Type) (*Val, bool) {
		_, coinSort, _ := x.coinSorts()
		if coinSort == "" {
			return nil, false
		}
		amt := I(x, s, args[1])
		x.panicIf(s, sx("<", amt, "0"), "negative_coin")
		return x.valOf(s, resT, sx("mk_"+coinSort, x.termOf(s, args[0]), amt)), true
	}
	summaryRegistry[sc+"AmountOf"] = func(x *Exec, s *State, args []*Val, resT types.Type) (*Val, bool) {
		x.coinSorts()
		return x.valOf(s, resT, sx("coins.amt", x.termOf(s, args[0]), x.termOf(s, args[1]))), true
	}
	addSub := func(sign string) func(x *Exec, s *State, args []*Val, resT types.Type) (*Val, bool) {
		return func(x *Exec, s *State, args []*Val, resT types.Type) (*Val, bool) {
			cs, _, _ := x.coinSorts()
			if cs == "" {
				return nil, false
			}
			a, b := x.termOf(s, args[0]), x.termOf(s, args[1])
			a = x.name(s, "coins_a", cs, a)
			b = x.name(s, "coins_b", cs, b)
			// the variadic argument built from NewCoin values is well-formed when it has one element with a positive amount;
			// in general its amounts add up per denom
			r := x.fresh(s, "coins", cs)
			bAmt := func(d string) string { return sx("coins.amt", b, d) }
			if args[1].SRef != nil {
				if k, ok := isNumLit(args[1].SRef.Len); ok && k == 1 {
					_, coinSort, coinT := x.coinSorts()
					si := x.c.structs[coinT.String()]
					el := sx("select", sx("arr_"+cs, b), sx("off_"+cs, b))
					_ = coinSort
					bAmt = func(d string) string { return ite(eq(d, sx(si.Fields[0].Acc, el)), sx(si.Fields[1].Acc, el), "0") }
				}
			}
			if sign == "-" {
				// Sub panics when an amount would become negative
				x.c.note("Coins.Sub: the negative-result panic is a path exit (obligation under nopanic)")
				neg := x.fresh(s, "coins_neg", "Bool")
				s.assume(eq(neg, fmt.Sprintf("(exists ((d Bytes)) (< (coins.amt %s d) %s))", a, bAmt("d"))))
				x.panicIf(s, neg, "coins_sub_negative")
				s.assume(fmt.Sprintf("(forall ((d Bytes)) (! (= (coins.amt %s d) (- (coins.amt %s d) %s)) :pattern ((coins.amt %s d))))", r, a, bAmt("d"), r))
			} else {
				s.assume(fmt.Sprintf("(forall ((d Bytes)) (! (= (coins.amt %s d) (+ (coins.amt %s d) %s)) :pattern ((coins.amt %s d))))", r, a, bAmt("d"), r))
			}
			s.assume(sx("coins.wf", r))
			s.assume(and(sx(">=", sx("len_"+cs, r), "0"), eq(sx("off_"+cs, r), "0")))
			return x.valOf(s, resT, r), true
		}
	}
	summaryRegistry[sc+"Add"] = addSub("+")
	summaryRegistry[sc+"Sub"] = addSub("-")
	summaryRegistry[sc+"IsAllGTE"] = func(x *Exec, s *State, args []*Val, resT types.Type) (*Val, bool) {
		x.coinSorts()
		return &Val{T: B, S: sx("coins.allgte", x.termOf(s, args[0]), x.termOf(s, args[1]))}, true
	}
	summaryRegistry[sc+"IsZero"] = func(x *Exec, s *State, args []*Val, resT types.Type) (*Val, bool) {
		cs, _, _ := x.coinSorts()
		return &Val{T: B, S: eq(sx("len_"+cs, x.termOf(s, args[0])), "0")}, true
	}
}
