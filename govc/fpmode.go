package main

import (
	"fmt"
	"go/ast"
	"go/constant"
	"go/parser"
	"go/token"
	"go/types"
	"os"
	"path/filepath"
	"strings"

	"golang.org/x/tools/go/ssa"
)

// ---------------------------------------------------------------------------
// "//@ opt mode=bvfp": straight-line functions that go through float64.
// Integers are 64-bit vectors, float64 is IEEE binary64; the only symbolic
// inputs are lengths of slices (len(x.F)), bounded by a stated domain bound.
// The obligation is labelled bounded-domain and is never counted as proved
// for larger inputs.
// ---------------------------------------------------------------------------

type bvfp struct {
	fn    *ssa.Function
	env   map[ssa.Value]string
	lens  map[string]string // source text of the measured slice -> bv constant
	decls []string
	bound int
	errs  []string
}

func (b *bvfp) lenConst(key string) string {
	if c, ok := b.lens[key]; ok {
		return c
	}
	c := fmt.Sprintf("len!%d", len(b.lens))
	b.lens[key] = c
	b.decls = append(b.decls, fmt.Sprintf("(declare-const %s (_ BitVec 64))", c), fmt.Sprintf("(assert (bvult %s (_ bv%s 64)))", c, bigPow2(b.bound)))
	return c
}

func bvLit(v constant.Value) string {
	iv := constant.ToInt(v)
	s := iv.ExactString()
	if strings.HasPrefix(s, "-") {
		return fmt.Sprintf("(bvneg (_ bv%s 64))", s[1:])
	}
	return fmt.Sprintf("(_ bv%s 64)", s)
}

func (b *bvfp) val(v ssa.Value) string {
	if c, ok := v.(*ssa.Const); ok {
		if isFloat(c.Type()) {
			f, _ := constant.Float64Val(c.Value)
			return fmt.Sprintf("((_ to_fp 11 53) RNE %s)", realLit(f))
		}
		return bvLit(c.Value)
	}
	if t, ok := b.env[v]; ok {
		return t
	}
	b.errs = append(b.errs, "unsupported value "+v.Name())
	return "(_ bv0 64)"
}

// path text of a FieldAddr/load chain rooted in a parameter: "relayer.Voters"
func chainText(v ssa.Value) string {
	switch v := v.(type) {
	case *ssa.Parameter:
		return v.Name()
	case *ssa.UnOp:
		if v.Op == token.MUL {
			return chainText(v.X)
		}
	case *ssa.FieldAddr:
		st := deref(v.X.Type()).Underlying().(*types.Struct)
		return chainText(v.X) + "." + st.Field(v.Field).Name()
	}
	return "?"
}

func (b *bvfp) run() string {
	if len(b.fn.Blocks) != 1 {
		b.errs = append(b.errs, "function is not straight-line")
		return ""
	}
	for _, in := range b.fn.Blocks[0].Instrs {
		switch in := in.(type) {
		case *ssa.DebugRef, *ssa.FieldAddr:
		case *ssa.UnOp:
			if in.Op != token.MUL {
				b.errs = append(b.errs, "unsupported unary op")
			}
		case *ssa.Call:
			if bi, ok := in.Call.Value.(*ssa.Builtin); ok && bi.Name() == "len" {
				b.env[in] = b.lenConst(chainText(in.Call.Args[0]))
				continue
			}
			if c := in.Call.StaticCallee(); c != nil && c.String() == "math.Ceil" {
				b.env[in] = sx("fp.roundToIntegral", "RTP", b.val(in.Call.Args[0]))
				continue
			}
			b.errs = append(b.errs, "unsupported call "+in.String())
		case *ssa.BinOp:
			x, y := b.val(in.X), b.val(in.Y)
			if isFloat(in.X.Type()) {
				op := map[token.Token]string{token.ADD: "fp.add", token.SUB: "fp.sub", token.MUL: "fp.mul", token.QUO: "fp.div"}[in.Op]
				if op == "" {
					b.errs = append(b.errs, "unsupported float op")
					continue
				}
				b.env[in] = sx(op, "RNE", x, y)
			} else {
				op := map[token.Token]string{token.ADD: "bvadd", token.SUB: "bvsub", token.MUL: "bvmul"}[in.Op]
				if op == "" {
					b.errs = append(b.errs, "unsupported int op "+in.Op.String())
					continue
				}
				b.env[in] = sx(op, x, y)
			}
		case *ssa.Convert:
			x := b.val(in.X)
			switch {
			case isInt(in.X.Type()) && isFloat(in.Type()):
				if isUnsigned(in.X.Type()) {
					b.env[in] = sx("(_ to_fp_unsigned 11 53)", "RNE", x)
				} else {
					b.env[in] = sx("(_ to_fp 11 53)", "RNE", x)
				}
			case isFloat(in.X.Type()) && isInt(in.Type()):
				b.env[in] = sx("(_ fp.to_sbv 64)", "RTZ", x)
			default:
				b.errs = append(b.errs, "unsupported conversion")
			}
		case *ssa.Return:
			if len(in.Results) != 1 {
				b.errs = append(b.errs, "one result expected")
				return ""
			}
			return b.val(in.Results[0])
		default:
			b.errs = append(b.errs, fmt.Sprintf("unsupported instruction %T", in))
		}
	}
	return ""
}

// specBV translates an integer spec expression to a 64-bit vector term (unsigned division).
func (b *bvfp) specBV(e ast.Expr) string {
	switch e := e.(type) {
	case *ast.ParenExpr:
		return b.specBV(e.X)
	case *ast.BasicLit:
		return bvLit(constant.MakeFromLiteral(e.Value, e.Kind, 0))
	case *ast.BinaryExpr:
		op := map[token.Token]string{token.ADD: "bvadd", token.SUB: "bvsub", token.MUL: "bvmul", token.QUO: "bvudiv", token.REM: "bvurem"}[e.Op]
		if op == "" {
			b.errs = append(b.errs, "unsupported spec operator "+e.Op.String())
			return "(_ bv0 64)"
		}
		return sx(op, b.specBV(e.X), b.specBV(e.Y))
	case *ast.CallExpr:
		if id, ok := e.Fun.(*ast.Ident); ok && id.Name == "len" {
			var sb strings.Builder
			ast.Fprint(&sb, nil, nil, nil)
			return b.lenConst(exprText(e.Args[0]))
		}
	}
	b.errs = append(b.errs, "unsupported spec expression in bvfp mode")
	return "(_ bv0 64)"
}

func exprText(e ast.Expr) string {
	switch e := e.(type) {
	case *ast.Ident:
		return e.Name
	case *ast.SelectorExpr:
		return exprText(e.X) + "." + e.Sel.Name
	case *ast.ParenExpr:
		return exprText(e.X)
	}
	return "?"
}

// verifyBVFP builds the single bounded-domain query of a bvfp-mode function. Returns obligation summaries.
func verifyBVFP(prog *Program, con *Contract, workDir string, bound, timeoutS int) ([]*ObligSummary, []string) {
	fn := prog.Funcs[con.Key]
	b := &bvfp{fn: fn, env: map[ssa.Value]string{}, lens: map[string]string{}, bound: bound}
	res := b.run()
	var out []*ObligSummary
	for i, e := range con.Ensures {
		lbl := e.Label
		if lbl == "" {
			lbl = fmt.Sprint(i)
		}
		ex, err := parser.ParseExpr(e.Expr)
		if err != nil {
			b.errs = append(b.errs, err.Error())
			continue
		}
		be, ok := ex.(*ast.BinaryExpr)
		if !ok || be.Op != token.EQL || exprText(be.X) != "result" {
			b.errs = append(b.errs, "bvfp mode supports ensures of the form result == <integer expression>")
			continue
		}
		spec := b.specBV(be.Y)
		if len(b.errs) > 0 {
			break
		}
		var sb strings.Builder
		sb.WriteString("(set-option :produce-models true)\n(set-logic QF_FPBV)\n")
		for _, d := range b.decls {
			sb.WriteString(d + "\n")
		}
		sb.WriteString(fmt.Sprintf("(assert (not (= %s %s)))\n(check-sat)\n(get-model)\n", res, spec))
		os.MkdirAll(workDir, 0o755)
		f := filepath.Join(workDir, fmt.Sprintf("bvfp_%s.smt2", lbl))
		os.WriteFile(f, []byte(sb.String()), 0o644)
		// cvc5 is the solver that decides these; race all three
		ch := make(chan SolveResult, len(solvers))
		for _, sp := range solvers {
			sp := sp
			go func() { ch <- runSolver(sp, f, timeoutS) }()
		}
		var r SolveResult
		for range solvers {
			rr := <-ch
			if rr.Status == "unsat" || rr.Status == "sat" {
				r = rr
				break
			}
			r = rr
		}
		name := fmt.Sprintf("%s/ensures.%s@bounded-domain", shortFuncName(fn), lbl)
		sm := &ObligSummary{Name: name, Props: con.Props, Paths: 1, Solver: r.Solver, Seconds: r.Seconds, SMTBytes: sb.Len(), Status: "discharged"}
		if r.Status != "unsat" {
			sm.Status = "failed"
			sm.FailKind = r.Status
			sm.FailFile = f
			sm.Model = r.Model
			sm.Output = r.Output
		}
		out = append(out, sm)
	}
	return out, b.errs
}
