package main

// Dependency summaries for the x/goat module and app/ante.go (C08, C09, C10, C19).
//
// Every summary here is an ASSUMPTION about a dependency; each is an uninterpreted function of the
// arguments (sound for a pure callee) unless said otherwise. The SMT symbols that contracts refer to
// (cometProposer, ctxHeaderHash, addrDecode, ...) are declared by `//@ smt` lines in
// x/goat/keeper/contracts_verif.go, NOT here, so that a contract can mention them even on paths that
// never reach the summarised call.

import (
	"fmt"
	"go/types"
	"strings"

	"golang.org/x/tools/go/ssa"
)

var bytesT = types.NewSlice(types.Typ[types.Uint8])

func gErr() types.Type { return errType }

// tup builds a tuple result.
func tup(resT types.Type, vs ...*Val) *Val { return &Val{T: resT, Tup: vs} }

// resAt: type of the i-th component of a tuple result type.
func resAt(resT types.Type, i int) types.Type {
	if t, ok := resT.(*types.Tuple); ok && i < t.Len() {
		return t.At(i).Type()
	}
	return resT
}

// opaqueContent: the content term of an opaque (sort Int) object behind a pointer argument; "0" for nil.
func (x *Exec) opaqueContent(s *State, v *Val) string {
	if v == nil || v.Ptr == nil || v.Ptr.Obj == 0 {
		return "0"
	}
	return ite(v.Ptr.Nil, "0", x.loadTerm(s, v.Ptr))
}

// newOpaquePtr: a pointer to a new opaque object whose identity term is `content`; nil under nilCond.
func (x *Exec) newOpaquePtr(s *State, T types.Type, name, content, nilCond string) *Val {
	id := x.newObj(s, deref(T), name, content, false)
	return &Val{T: T, Ptr: &Ptr{Obj: id, Nil: nilCond}}
}

// applyByContract applies the contract of the /repo function `key` (must exist) inside a summary.
// applyContract never forks, so the continuation is called exactly once, synchronously.
func (x *Exec) applyByContract(s *State, key string, args []*Val, resT types.Type) (*Val, bool) {
	con, ok := x.cs.ByKey[key]
	fn := x.prog.Funcs[key]
	if !ok || fn == nil {
		return nil, false
	}
	var out *Val
	x.applyContract(s, fn, con, args, resT, func(_ *State, r *Val) { out = r })
	return out, true
}

// engine call counter (ghost): number of engine API calls made so far on the path.
func engCallNo(s *State) string {
	n := s.ghost["engcalls"]
	if n == "" {
		n = "0"
	}
	k, _ := isNumLit(n)
	s.ghost["engcalls"] = num(k + 1)
	return n
}

var gINVALID = "g." + sanitize("github.com/ethereum/go-ethereum/beacon/engine.INVALID")
var gVALID = "g." + sanitize("github.com/ethereum/go-ethereum/beacon/engine.VALID")

func init() {
	R := summaryRegistry

	// ---- address codec: a partial decoding function of the string (bech32 in the application) ---------
	R["invoke:cosmossdk.io/core/address.Codec.StringToBytes"] = func(x *Exec, s *State, a []*Val, resT types.Type) (*Val, bool) {
		str := x.termOf(s, a[1])
		b := sx("addrDecode", str)
		s.assume(sx("<", sx("blen", b), pow2(63)))
		return tup(resT, &Val{T: resAt(resT, 0), S: b}, &Val{T: gErr(), S: sx("addrDecodeErr", str)}), true
	}
	R["invoke:cosmossdk.io/core/address.Codec.BytesToString"] = func(x *Exec, s *State, a []*Val, resT types.Type) (*Val, bool) {
		b := x.termOf(s, a[1])
		return tup(resT, &Val{T: resAt(resT, 0), S: sx("addrEncode", b)}, &Val{T: gErr(), S: sx("addrEncodeErr", b)}), true
	}

	// ---- consensus context ------------------------------------------------------------------------------
	R["(github.com/cosmos/cosmos-sdk/types.Context).CometInfo"] = func(x *Exec, s *State, a []*Val, resT types.Type) (*Val, bool) {
		return &Val{T: resT, S: "1"}, true
	}
	R["invoke:cosmossdk.io/core/comet.BlockInfo.GetProposerAddress"] = func(x *Exec, s *State, a []*Val, resT types.Type) (*Val, bool) {
		s.assume(sx("<", sx("blen", "cometProposer"), pow2(63)))
		return &Val{T: resT, S: "cometProposer"}, true
	}
	R["(github.com/cosmos/cosmos-sdk/types.Context).HeaderHash"] = func(x *Exec, s *State, a []*Val, resT types.Type) (*Val, bool) {
		s.assume(sx("<", sx("blen", "ctxHeaderHash"), pow2(63)))
		return &Val{T: resT, S: "ctxHeaderHash"}, true
	}
	R["ctx.HeaderHash"] = R["(github.com/cosmos/cosmos-sdk/types.Context).HeaderHash"]
	// ExecMode under a name contracts can use (the built-in summary hides it in a context constant)
	R["(github.com/cosmos/cosmos-sdk/types.Context).ExecMode"] = func(x *Exec, s *State, a []*Val, resT types.Type) (*Val, bool) {
		s.assume(and(sx("<=", "0", "ctxExecMode"), sx("<", "ctxExecMode", "256")))
		return &Val{T: resT, S: "ctxExecMode"}, true
	}
	R["ctx.ExecMode"] = R["(github.com/cosmos/cosmos-sdk/types.Context).ExecMode"]

	// ---- go-ethereum helpers ------------------------------------------------------------------------------
	// BytesToHash / BytesToAddress: left-pad or crop to 32 / 20 bytes; identity on inputs of that length.
	R["github.com/ethereum/go-ethereum/common.BytesToHash"] = func(x *Exec, s *State, a []*Val, resT types.Type) (*Val, bool) {
		return &Val{T: resT, S: sx("bytesToHash", x.termOf(s, a[0]))}, true
	}
	R["github.com/ethereum/go-ethereum/common.BytesToAddress"] = func(x *Exec, s *State, a []*Val, resT types.Type) (*Val, bool) {
		return &Val{T: resT, S: sx("bytesToAddress", x.termOf(s, a[0]))}, true
	}
	// (Hash).Bytes / (Address).Bytes: the bytes themselves
	R["(github.com/ethereum/go-ethereum/common.Hash).Bytes"] = func(x *Exec, s *State, a []*Val, resT types.Type) (*Val, bool) {
		return &Val{T: resT, S: x.termOf(s, a[0])}, true
	}
	R["(github.com/ethereum/go-ethereum/common.Address).Bytes"] = R["(github.com/ethereum/go-ethereum/common.Hash).Bytes"]

	// DecodeRequests: a deterministic (pure) decoder; the three request groups and the error are
	// uninterpreted functions of the request list.
	R["github.com/ethereum/go-ethereum/core/types/goattypes.DecodeRequests"] = func(x *Exec, s *State, a []*Val, resT types.Type) (*Val, bool) {
		in := x.termOf(s, a[0])
		insort := x.c.sortOf(a[0].T)
		var vs []*Val
		names := []string{"bridge", "relayer", "locking", "err"}
		for i := 0; i < 4; i++ {
			T := resAt(resT, i)
			srt := x.c.sortOf(T)
			fn := "decodeRequests_" + names[i]
			declUF(x, fn, insort, srt) // contract files may declare decodeRequests_bridge themselves (A-el-ids)
			t := sx(fn, in)
			if i < 3 {
				t = x.name(s, "dreq_"+names[i], srt, t)
				x.assumeStructInv(s, T, t)
			}
			if i == 2 {
				// number of gas-revenue requests, under a name contracts can use
				if si := x.c.structInfo(T); si != nil {
					for _, f := range si.Fields {
						if f.Name == "Gas" {
							s.assume(eq(sx("decodeReqGasCount", in), sx("len_"+f.Sort, sx(f.Acc, t))))
						}
					}
				}
			}
			if i == 3 {
				s.assume(eq(sx("decodeReqErr", in), t))
			}
			vs = append(vs, x.valOf(s, T, t))
		}
		return tup(resT, vs...), true
	}

	// ---- sdk.AccAddress --------------------------------------------------------------------------------
	// a.Equals(b): both empty, or equal bytes (empty byte strings are all equal in the Bytes theory)
	R["(github.com/cosmos/cosmos-sdk/types.AccAddress).Equals"] = func(x *Exec, s *State, a []*Val, resT types.Type) (*Val, bool) {
		o := a[1]
		if o.Dyn == nil || x.c.sortOf(o.Dyn.T) != "Bytes" {
			return nil, false
		}
		return &Val{T: resT, S: eq(x.termOf(s, a[0]), x.termOf(s, o.Dyn))}, true
	}

	// ---- cosmossdk.io/math ----------------------------------------------------------------------------
	// NewIntFromBigInt(i): Int{} for nil, panics when |i| needs more than 256 bits, else a copy (argument untouched)
	R["cosmossdk.io/math.NewIntFromBigInt"] = func(x *Exec, s *State, a []*Val, resT types.Type) (*Val, bool) {
		p := a[0]
		if p.Ptr == nil {
			return nil, false
		}
		if p.Ptr.Obj == 0 {
			return &Val{T: resT, S: "0"}, true
		}
		v := x.loadTerm(s, p.Ptr)
		lim := pow2(256)
		x.panicIf(s, and(not(p.Ptr.Nil), or(sx(">=", v, lim), sx("<=", v, "(- "+lim+")"))), "NewIntFromBigInt_out_of_bound")
		return &Val{T: resT, S: ite(p.Ptr.Nil, "0", v)}, true
	}
	// (Int).BigInt(): a fresh copy (nil for the nil Int, which the Int sort does not distinguish from 0)
	R["(cosmossdk.io/math.Int).BigInt"] = func(x *Exec, s *State, a []*Val, resT types.Type) (*Val, bool) {
		id := x.newObj(s, deref(resT), "bigint", x.termOf(s, a[0]), false)
		return &Val{T: resT, Ptr: &Ptr{Obj: id, Nil: x.fresh(s, "bigint_isnil", "Bool")}}, true
	}

	registerTxSummaries()
	registerEngineSummaries()
	registerErrgroupSummaries()
}

// assumeStructInv: type invariants (lengths non-negative) of the slice fields of a struct term.
func (x *Exec) assumeStructInv(s *State, T types.Type, t string) {
	si := x.c.structInfo(T)
	if si == nil {
		return
	}
	for _, f := range si.Fields {
		x.assumeInv(s, f.T, sx(f.Acc, t))
	}
}

// ---------------------------------------------------------------------------
// sdk.Tx and friends (C10)
// ---------------------------------------------------------------------------

func registerTxSummaries() {
	R := summaryRegistry
	// GetSigners: (txSigners(tx), txSignersErr(tx))
	sig := func(x *Exec, s *State, a []*Val, resT types.Type) (*Val, bool) {
		T := resAt(resT, 0)
		srt := x.c.sortOf(T)
		t := x.name(s, "signers", srt, sx("txSigners", a[0].S))
		x.assumeInv(s, T, t)
		return tup(resT, x.valOf(s, T, t), &Val{T: gErr(), S: sx("txSignersErr", a[0].S)}), true
	}
	R["invoke:github.com/goatnetwork/goat/app.StdTx.GetSigners"] = sig
	R["invoke:github.com/cosmos/cosmos-sdk/x/auth/signing.SigVerifiableTx.GetSigners"] = sig
	// GetMemo / GetTimeoutHeight: txMemo(tx), txTimeoutHeight(tx)
	R["invoke:github.com/goatnetwork/goat/app.StdTx.GetMemo"] = func(x *Exec, s *State, a []*Val, resT types.Type) (*Val, bool) {
		t := sx("txMemo", a[0].S)
		s.assume(sx("<", sx("blen", t), pow2(63)))
		return &Val{T: resT, S: t}, true
	}
	R["invoke:github.com/goatnetwork/goat/app.StdTx.GetTimeoutHeight"] = func(x *Exec, s *State, a []*Val, resT types.Type) (*Val, bool) {
		t := sx("txTimeoutHeight", a[0].S)
		s.assume(intRange(resT, t))
		return &Val{T: resT, S: t}, true
	}
	// GetMsgs: txMsgs(tx). Also ties the dynamic-type test `m.(*types.MsgNewEthBlock)` to the predicate
	// isNewEthBlockMsg(m) that contracts use (type tags are internal numbers of the verifier).
	R["invoke:github.com/cosmos/cosmos-sdk/types.Tx.GetMsgs"] = func(x *Exec, s *State, a []*Val, resT types.Type) (*Val, bool) {
		srt := x.c.sortOf(resT)
		t := x.name(s, "msgs", srt, sx("txMsgs", a[0].S))
		x.assumeInv(s, resT, t)
		for _, p := range x.prog.SSA.AllPackages() {
			if p.Pkg.Path() != modPath+"/x/goat/types" {
				continue
			}
			if obj := p.Pkg.Scope().Lookup("MsgNewEthBlock"); obj != nil {
				PT := types.NewPointer(obj.Type())
				asFn, _ := x.boxFn(PT)
				tag := x.c.tagOf(PT)
				// messages of a decoded tx are allocated by the codec (reflect.New): never typed-nil pointers
				psrt := x.c.sortOf(PT)
				x.c.P.axiom("decoded_msgs_nonnil", []string{asFn},
					fmt.Sprintf("(assert (forall ((m Int)) (! (=> (and (not (= m 0)) (= (ifc.dyntag m) %s)) ((_ is some_%s) (%s m))) :pattern ((%s m)))))", tag, psrt, asFn, asFn))
				x.c.P.axiom("isNewEthBlockMsg_def", []string{"isNewEthBlockMsg"},
					fmt.Sprintf("(assert (forall ((m Int)) (! (= (isNewEthBlockMsg m) (and (not (= m 0)) (= (ifc.dyntag m) %s))) :pattern ((ifc.dyntag m)))))\n(assert (forall ((m Int)) (! (= (isNewEthBlockMsg m) (and (not (= m 0)) (= (ifc.dyntag m) %s))) :pattern ((isNewEthBlockMsg m)))))", tag, tag))
			}
		}
		return x.valOf(s, resT, t), true
	}
	// baseapp.ProcessProposalVerifyTx(raw): decodes (a pure function of the bytes) and runs the ante chain in
	// process-proposal mode; on success it returns the decoded tx. The error depends on state: unconstrained.
	R["invoke:github.com/cosmos/cosmos-sdk/baseapp.ProposalTxVerifier.ProcessProposalVerifyTx"] = func(x *Exec, s *State, a []*Val, resT types.Type) (*Val, bool) {
		e := x.fresh(s, "ppv_err", "Int")
		tx := x.fresh(s, "ppv_tx", "Int")
		s.assume(implies(eq(e, "0"), and(eq(tx, sx("txDecode", x.termOf(s, a[1]))), not(eq(tx, "0")))))
		return tup(resT, &Val{T: resAt(resT, 0), S: tx}, &Val{T: gErr(), S: e}), true
	}
	// GetMsgsV2: (txMsgsV2(tx), txMsgsV2Err(tx))
	R["invoke:github.com/cosmos/cosmos-sdk/types.Tx.GetMsgsV2"] = func(x *Exec, s *State, a []*Val, resT types.Type) (*Val, bool) {
		T := resAt(resT, 0)
		srt := x.c.sortOf(T)
		t := x.name(s, "msgsv2", srt, sx("txMsgsV2", a[0].S))
		x.assumeInv(s, T, t)
		return tup(resT, x.valOf(s, T, t), &Val{T: gErr(), S: sx("txMsgsV2Err", a[0].S)}), true
	}
	// protobuf reflection: msg.ProtoReflect().Descriptor().FullName() == msgFullName(msg)
	ident := func(x *Exec, s *State, a []*Val, resT types.Type) (*Val, bool) {
		return &Val{T: resT, S: a[0].S}, true
	}
	for _, k := range []string{
		"invoke:google.golang.org/protobuf/reflect/protoreflect.ProtoMessage.ProtoReflect",
		"invoke:google.golang.org/protobuf/proto.Message.ProtoReflect",
		"invoke:.ProtoReflect",
		"invoke:google.golang.org/protobuf/reflect/protoreflect.Message.Descriptor",
	} {
		R[k] = ident
	}
	R["invoke:google.golang.org/protobuf/reflect/protoreflect.MessageDescriptor.FullName"] = func(x *Exec, s *State, a []*Val, resT types.Type) (*Val, bool) {
		t := sx("msgFullName", a[0].S)
		s.assume(sx("<", sx("blen", t), pow2(63)))
		return &Val{T: resT, S: t}, true
	}
	// the relayer keeper behind the guard's interface field: the relayer keeper's contract
	R["invoke:github.com/goatnetwork/goat/x/goat/types.RelayerKeeper.GetCurrentProposer"] = func(x *Exec, s *State, a []*Val, resT types.Type) (*Val, bool) {
		key := modPath + "/x/relayer/keeper.(Keeper).GetCurrentProposer"
		fn := x.prog.Funcs[key]
		if fn == nil {
			return nil, false
		}
		recv := &Val{T: fn.Params[0].Type(), Tag: &Tag{Kind: tagKeeper, Module: "relayer"}}
		return x.applyByContract(s, key, []*Val{recv, a[1]}, resT)
	}
}

// ---------------------------------------------------------------------------
// Execution engine (C08, C09)
// ---------------------------------------------------------------------------
//
// The engine is an external, possibly faulty service. The answer to the n-th engine call of a run is an
// uninterpreted function of n and of the arguments: engNPerr(n, data, root, requests) etc. A postcondition
// "engNPerr(0, D, R, Q) == 0" is provable only if call number 0 was made with exactly the arguments
// (D, R, Q) and its error was checked, which is how "the engine is told exactly the recorded head" is stated.
// ExecutableData / ForkchoiceStateV1 are opaque to the engine (foreign structs), therefore
//   - PayloadToExecutableData is summarised at call sites: result = edOf(payload) (abstract, injective by
//     construction of the argument), plus its side effect on the argument (Transactions nil -> empty);
//   - the fields of a &ForkchoiceStateV1{...} literal are recovered from the SSA stores of the calling block.

func registerEngineSummaries() {
	R := summaryRegistry
	R[modPath+"/x/goat/types.PayloadToExecutableData"] = func(x *Exec, s *State, a []*Val, resT types.Type) (*Val, bool) {
		p := a[0]
		if p.Ptr == nil || p.Ptr.Obj == 0 {
			return nil, false
		}
		x.panicIf(s, p.Ptr.Nil, "nil_deref")
		T := x.pathType(p.Ptr)
		si := x.c.structInfo(T)
		if si == nil {
			return nil, false
		}
		pre := x.name(s, "payload", si.Sort, x.loadTerm(s, p.Ptr))
		ed := sx("edOf", pre)
		// the effect on the argument is whatever the function's own verified contract allows: with
		// "modifies nothing" (checked on the real body as goat/types.PayloadToExecutableData/frame.params)
		// the argument is unchanged; if the contract ever lists the parameter, it is havocked here.
		if con := x.cs.ByKey[modPath+"/x/goat/types.PayloadToExecutableData"]; con == nil || !con.HasMod {
			x.havocObj(s, p.Ptr.Obj)
		} else {
			for _, m := range con.Modifies {
				if m == "data" {
					x.havocObj(s, p.Ptr.Obj)
				}
			}
		}
		_ = si
		return x.newOpaquePtr(s, resT, "execdata", ed, "false"), true
	}

	R["invoke:github.com/goatnetwork/goat/pkg/ethrpc.EngineClient.NewPayloadV4"] = func(x *Exec, s *State, a []*Val, resT types.Type) (*Val, bool) {
		n := engCallNo(s)
		ed := x.opaqueContent(s, a[2])
		root := x.termOf(s, a[4])
		reqs := x.termOf(s, a[5])
		e := sx("engNPerr", n, ed, root, reqs)
		r := sx("engNPresp", n, ed, root, reqs)
		x.c.P.declare(gINVALID, fmt.Sprintf("(declare-const %s Bytes)", gINVALID))
		x.c.P.declare(gVALID, fmt.Sprintf("(declare-const %s Bytes)", gVALID))
		st := x.statusOf(resT, r)
		s.assume(eq(sx("engNPinvalid", n, ed, root, reqs), eq(st, gINVALID)))
		s.assume(eq(sx("engNPvalid", n, ed, root, reqs), eq(st, gVALID)))
		// the client returns a non-nil status exactly when it returns no error (pkg/ethrpc/engine.go)
		resp := x.newOpaquePtr(s, resAt(resT, 0), "npresp", r, not(eq(e, "0")))
		return tup(resT, resp, &Val{T: gErr(), S: e}), true
	}

	R["invoke:github.com/goatnetwork/goat/pkg/ethrpc.EngineClient.ForkchoiceUpdatedV3"] = func(x *Exec, s *State, a []*Val, resT types.Type) (*Val, bool) {
		n := engCallNo(s)
		fs, ok := x.literalFields(s, a[2], 3)
		if !ok {
			return nil, false
		}
		attrsNil := "true"
		attrs := "0"
		if a[3].Ptr != nil {
			attrsNil = a[3].Ptr.Nil
			if a[3].Ptr.Obj != 0 {
				attrs = x.opaqueContent(s, a[3])
			}
		}
		args := []string{n, fs[0], fs[1], fs[2], attrsNil, attrs}
		e := sx("engFCUerr", args...)
		r := sx("engFCUresp", args...)
		x.c.P.declare(gINVALID, fmt.Sprintf("(declare-const %s Bytes)", gINVALID))
		x.c.P.declare(gVALID, fmt.Sprintf("(declare-const %s Bytes)", gVALID))
		T := resAt(resT, 0) // engine.ForkChoiceResponse (opaque struct): content term r
		// status = r.PayloadStatus.Status
		ps := x.opaqueField(T, r, "PayloadStatus")
		u := T.Underlying().(*types.Struct)
		var pst types.Type
		for i := 0; i < u.NumFields(); i++ {
			if u.Field(i).Name() == "PayloadStatus" {
				pst = u.Field(i).Type()
			}
		}
		st := x.opaqueField(pst, ps, "Status")
		s.assume(eq(sx("engFCUinvalid", args...), eq(st, gINVALID)))
		s.assume(eq(sx("engFCUvalid", args...), eq(st, gVALID)))
		return tup(resT, &Val{T: T, S: r}, &Val{T: gErr(), S: e}), true
	}
}

// statusOf: the Status field of the *PayloadStatusV1 whose content term is r.
func (x *Exec) statusOf(resT types.Type, r string) string {
	T := deref(resAt(resT, 0))
	return x.opaqueField(T, r, "Status")
}

func (x *Exec) opaqueField(T types.Type, t, field string) string {
	u := T.Underlying().(*types.Struct)
	for i := 0; i < u.NumFields(); i++ {
		if u.Field(i).Name() == field {
			r, _ := x.stepTerm(T, t, Step{Kind: stField, Field: i})
			return r
		}
	}
	return "0"
}

// literalFields recovers the first n field values of a composite literal of an opaque struct type
// (stores into opaque structs are dropped by the engine) from the SSA of the block being executed:
// the pointer must be an Alloc of the function under verification whose only uses before the call are
// field stores in the current block. Missing fields are zero (bzeros 32 for hashes).
func (x *Exec) literalFields(s *State, p *Val, n int) ([]string, bool) {
	if p.Ptr == nil || p.Ptr.Obj == 0 || len(p.Ptr.Path) != 0 || x.curEnv == nil || x.curBlock == nil {
		return nil, false
	}
	var alloc *ssa.Alloc
	for v, val := range x.curEnv {
		if al, ok := v.(*ssa.Alloc); ok && val != nil && val.Ptr != nil && val.Ptr.Obj == p.Ptr.Obj && len(val.Ptr.Path) == 0 {
			alloc = al
		}
	}
	if alloc == nil || alloc.Parent() != x.curBlock.Parent() {
		return nil, false
	}
	u, ok := deref(alloc.Type()).Underlying().(*types.Struct)
	if !ok {
		return nil, false
	}
	out := make([]string, n)
	for i := 0; i < n; i++ {
		out[i] = x.zeroOf(u.Field(i).Type())
	}
	for _, ref := range *alloc.Referrers() {
		fa, ok := ref.(*ssa.FieldAddr)
		if !ok {
			continue
		}
		for _, r2 := range *fa.Referrers() {
			st, ok := r2.(*ssa.Store)
			if !ok || st.Addr != fa {
				continue
			}
			if st.Block() != x.curBlock {
				return nil, false
			}
			v, ok := x.curEnv[st.Val]
			if !ok {
				if c, isC := st.Val.(*ssa.Const); isC {
					v = x.constVal(s, c)
				} else {
					return nil, false
				}
			}
			if fa.Field < n {
				out[fa.Field] = x.termOf(s, v)
			}
		}
	}
	x.c.note("opaque composite literal " + strings.TrimPrefix(alloc.Type().String(), "*") + ": field values recovered from the SSA stores of the calling block")
	return out, true
}

// ---------------------------------------------------------------------------
// errgroup (C08): Go runs the closure (through its contract), Wait returns nil iff every closure did.
// The closures are verified separately, each as if it ran alone; that is only sound if they do not
// interfere, which is exactly the data-race clause of C08 (see NOTES.md).
// ---------------------------------------------------------------------------

func registerErrgroupSummaries() {
	R := summaryRegistry
	R["golang.org/x/sync/errgroup.WithContext"] = func(x *Exec, s *State, a []*Val, resT types.Type) (*Val, bool) {
		s.ghost["egerrs"] = ""
		g := x.newOpaquePtr(s, resAt(resT, 0), "errgroup", "1", "false")
		return tup(resT, g, a[0]), true
	}
	R["(*golang.org/x/sync/errgroup.Group).Go"] = func(x *Exec, s *State, a []*Val, resT types.Type) (*Val, bool) {
		f := a[1]
		if f.Clo == nil {
			return nil, false
		}
		key := funcKey(f.Clo.Fn)
		con, ok := x.cs.ByKey[key]
		if !ok {
			x.fail("errgroup.Go: closure %s has no contract", key)
			return nil, false
		}
		var out *Val
		x.applyClosureContract(s, f.Clo, con, func(r *Val) { out = r })
		if out == nil {
			return nil, false
		}
		if s.ghost["egerrs"] == "" {
			s.ghost["egerrs"] = out.S
		} else {
			s.ghost["egerrs"] += "|" + out.S
		}
		return nil, true
	}
	R["(*golang.org/x/sync/errgroup.Group).Wait"] = func(x *Exec, s *State, a []*Val, resT types.Type) (*Val, bool) {
		r := x.fresh(s, "egwait", "Int")
		var zs, is []string
		if es := s.ghost["egerrs"]; es != "" {
			for _, e := range strings.Split(es, "|") {
				zs = append(zs, eq(e, "0"))
				is = append(is, eq(r, e))
			}
		}
		// nil iff all nil; otherwise one of the closures' errors
		s.assume(eq(eq(r, "0"), and(zs...)))
		if len(is) > 0 {
			s.assume(or(append(is, eq(r, "0"))...))
		}
		return &Val{T: resT, S: r}, true
	}
}

// applyClosureContract: applyContract for a closure value: the free variables are bound, under their
// source names, to the captured cells, as they are when the closure is verified on its own.
func (x *Exec) applyClosureContract(s *State, clo *Closure, con *Contract, cont func(*Val)) {
	fn := clo.Fn
	x.usedContracts[con.Key] = true
	vars := map[string]*Val{}
	for i, fv := range fn.FreeVars {
		if i < len(clo.Bindings) {
			vars[fv.Name()] = clo.Bindings[i]
		}
	}
	pre := s.clone()
	var pkg *types.Package
	if fn.Pkg != nil {
		pkg = fn.Pkg.Pkg
	} else if fn.Parent() != nil && fn.Parent().Pkg != nil {
		pkg = fn.Parent().Pkg.Pkg
	}
	oldEnv := &SpecEnv{x: x, s: pre, vars: vars, pkg: pkg, bound: map[string]string{}}
	se := &SpecEnv{x: x, s: s, old: oldEnv, vars: vars, pkg: pkg, bound: map[string]string{}}
	for i, r := range con.Requires {
		lbl := r.Label
		if lbl == "" {
			lbl = fmt.Sprint(i)
		}
		se.where = fmt.Sprintf("call %s requires.%s", con.Key, lbl)
		t, err := x.evalSpec(se, r.Expr)
		if err != nil {
			x.fail("%v", err)
			continue
		}
		if x.disc == nil {
			x.oblige(s, "call."+fn.Name()+".requires", lbl, t, nil)
		}
		s.assume(t)
	}
	for _, m := range con.Modifies {
		switch {
		case strings.HasPrefix(m, "st."):
			parts := strings.Split(m, ".")
			if len(parts) != 3 {
				x.fail("bad modifies entry %q in %s", m, con.Key)
				continue
			}
			ct := x.collType(parts[1], parts[2])
			if ct == nil {
				x.fail("modifies %q: no such collection", m)
				continue
			}
			ci := x.collInfo(&Tag{Kind: tagColl, Module: parts[1], Field: parts[2], T: ct})
			for _, c := range ci.components() {
				x.stGet(s, c.name, c.sort)
				x.stSorts[c.name] = c.sort
				s.st[c.name] = x.fresh(s, "hv_"+c.name, c.sort)
				if x.disc != nil {
					x.disc.state[c.name] = true
				}
			}
		default:
			// a captured variable: havoc what it points to
			if v, ok := vars[m]; ok && v.Ptr != nil && v.Ptr.Obj != 0 {
				x.havocObj(s, v.Ptr.Obj)
			}
		}
	}
	if !con.HasMod {
		x.fail("closure contract %s needs a modifies clause", con.Key)
	}
	sig := fn.Signature.Results()
	var rt types.Type = sig
	if sig.Len() == 1 {
		rt = sig.At(0).Type()
	}
	res := x.freshResult(s, rt, fn.Name())
	if res != nil && sig.Len() == 1 {
		if isErrorType(sig.At(0).Type()) {
			se.vars["err"] = res
		} else {
			se.vars["result"] = res
		}
		se.vars["ret0"] = res
	}
	for _, e := range con.Ensures {
		se.where = fmt.Sprintf("call %s ensures.%s", con.Key, e.Label)
		t, err := x.evalSpec(se, e.Expr)
		if err != nil {
			x.fail("%v", err)
			continue
		}
		s.assume(t)
	}
	cont(res)
}
