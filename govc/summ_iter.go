package main

// collections iterators (Map.Iterate + Iterator.Valid/Next/KeyValue/Key/Value/Close), A-iter:
// the iterator is abstracted to "any sequence of entries": Valid() is an arbitrary boolean at every call and
// KeyValue() an arbitrary (key, value) pair with an arbitrary error. Whatever a loop over the iterator proves with
// this summary it proves for every content and order of the real iterator (over-approximation: the link between the
// entries yielded and the stored map is dropped, so facts like "the key has the prefix asked for" are not available —
// the code under contract checks them itself where it needs them).

import (
	"go/types"
)

func init() {
	R := summaryRegistry
	R["(cosmossdk.io/collections.Map).Iterate"] = func(x *Exec, s *State, args []*Val, resT types.Type) (*Val, bool) {
		tup, ok := resT.(*types.Tuple)
		if !ok || tup.Len() != 2 {
			return nil, false
		}
		x.c.note("A-iter: collections.Map.Iterate yields an arbitrary sequence of entries")
		it := x.freshVal(s, tup.At(0).Type(), "iter")
		e := x.fresh(s, "iter_err", "Int")
		return &Val{T: resT, Tup: []*Val{it, {T: errType, S: e}}}, true
	}
	R["(cosmossdk.io/collections.Iterator).Valid"] = func(x *Exec, s *State, args []*Val, resT types.Type) (*Val, bool) {
		return &Val{T: resT, S: x.fresh(s, "iter_valid", "Bool")}, true
	}
	R["(cosmossdk.io/collections.Iterator).Next"] = func(x *Exec, s *State, args []*Val, resT types.Type) (*Val, bool) {
		return &Val{T: resT}, true
	}
	R["(cosmossdk.io/collections.Iterator).Close"] = func(x *Exec, s *State, args []*Val, resT types.Type) (*Val, bool) {
		return &Val{T: resT, S: "0"}, true
	}
	kv := func(x *Exec, s *State, args []*Val, resT types.Type) (*Val, bool) {
		tup, ok := resT.(*types.Tuple)
		if !ok || tup.Len() != 2 {
			return nil, false
		}
		v := x.freshVal(s, tup.At(0).Type(), "iter_kv")
		x.assumeInv(s, tup.At(0).Type(), x.termOf(s, v))
		e := x.fresh(s, "iter_kv_err", "Int")
		return &Val{T: resT, Tup: []*Val{v, {T: errType, S: e}}}, true
	}
	R["(cosmossdk.io/collections.Iterator).KeyValue"] = kv
	R["(cosmossdk.io/collections.Iterator).Key"] = kv
	R["(cosmossdk.io/collections.Iterator).Value"] = kv
}
