package main

// collections iterators (Map.Iterate / KeySet.Iterate + Valid/Next/KeyValue/Key/Value/Close), A-iter:
// the iterator is abstracted to "any sequence of entries that were stored when the iterator was created": Valid() is an
// arbitrary boolean at every call, Key()/KeyValue() yield an arbitrary key of the collection's domain at creation time
// with the value stored for it then, and an arbitrary error. Whatever a loop over the iterator proves with this summary
// it proves for every order, range and prefix of the real iterator, provided the loop does not write to the collection
// it iterates (assumption, recorded in the notes); completeness of the iteration ("every entry is visited") is NOT
// available, so clauses that need it cannot be proved this way.

import (
	"fmt"
	"go/types"
)

type iterSnap struct {
	ci       *CollInfo
	dom, val string
}

var iterSnaps = map[string]*iterSnap{}

func init() {
	R := summaryRegistry
	iterate := func(x *Exec, s *State, args []*Val, resT types.Type) (*Val, bool) {
		tup, ok := resT.(*types.Tuple)
		if !ok || tup.Len() != 2 {
			return nil, false
		}
		x.c.note("A-iter: collections iterator yields an arbitrary sequence of the entries stored at its creation (loop must not write the iterated collection; completeness not modelled)")
		it := x.fresh(s, "iter", "Int")
		s.assume(not(eq(it, "0")))
		if recv := args[0]; recv.Tag != nil && (recv.Tag.Kind == tagColl || recv.Tag.Kind == tagCollPtr) {
			ci := x.collInfo(recv.Tag)
			sn := &iterSnap{ci: ci}
			switch ci.Kind {
			case "Map":
				sn.dom = x.stGet(s, ci.Name+".dom", fmt.Sprintf("(Array %s Bool)", ci.KSort))
				sn.val = x.stGet(s, ci.Name+".val", fmt.Sprintf("(Array %s %s)", ci.KSort, ci.VSort))
			case "KeySet":
				sn.dom = x.stGet(s, ci.Name+".dom", fmt.Sprintf("(Array %s Bool)", ci.KSort))
			}
			iterSnaps[it] = sn
		}
		e := x.fresh(s, "iter_err", "Int")
		return &Val{T: resT, Tup: []*Val{x.valOf(s, tup.At(0).Type(), it), {T: errType, S: e}}}, true
	}
	R["(cosmossdk.io/collections.Map).Iterate"] = iterate
	R["(cosmossdk.io/collections.KeySet).Iterate"] = iterate
	valid := func(x *Exec, s *State, args []*Val, resT types.Type) (*Val, bool) {
		return &Val{T: resT, S: x.fresh(s, "iter_valid", "Bool")}, true
	}
	next := func(x *Exec, s *State, args []*Val, resT types.Type) (*Val, bool) { return &Val{T: resT}, true }
	closeIt := func(x *Exec, s *State, args []*Val, resT types.Type) (*Val, bool) {
		return &Val{T: resT, S: "0"}, true
	}
	snapOf := func(x *Exec, s *State, it *Val) *iterSnap { return iterSnaps[x.termOf(s, it)] }
	// Key(): (K, error)
	key := func(x *Exec, s *State, args []*Val, resT types.Type) (*Val, bool) {
		tup, ok := resT.(*types.Tuple)
		if !ok || tup.Len() != 2 {
			return nil, false
		}
		kT := tup.At(0).Type()
		k := x.fresh(s, "iter_key", x.c.sortOf(kT))
		x.assumeInv(s, kT, k)
		e := x.fresh(s, "iter_key_err", "Int")
		if sn := snapOf(x, s, args[0]); sn != nil && sn.dom != "" && x.c.sortOf(kT) == sn.ci.KSort {
			s.assume(implies(eq(e, "0"), sx("select", sn.dom, k)))
		}
		return &Val{T: resT, Tup: []*Val{x.valOf(s, kT, k), {T: errType, S: e}}}, true
	}
	// KeyValue(): (KeyValue[K,V], error): an opaque record whose Key / Value fields are read through the engine's
	// uninterpreted field functions; the membership fact is stated on those.
	kv := func(x *Exec, s *State, args []*Val, resT types.Type) (*Val, bool) {
		tup, ok := resT.(*types.Tuple)
		if !ok || tup.Len() != 2 {
			return nil, false
		}
		rT := tup.At(0).Type()
		v := x.freshVal(s, rT, "iter_kv")
		t := x.termOf(s, v)
		x.assumeInv(s, rT, t)
		e := x.fresh(s, "iter_kv_err", "Int")
		if sn := snapOf(x, s, args[0]); sn != nil && sn.dom != "" {
			if ki := fieldIndex(rT, "Key"); ki >= 0 {
				if kt, kT := x.stepTerm(rT, t, Step{Kind: stField, Field: ki}); kT != nil && x.c.sortOf(kT) == sn.ci.KSort {
					s.assume(implies(eq(e, "0"), sx("select", sn.dom, kt)))
					if vi := fieldIndex(rT, "Value"); vi >= 0 && sn.val != "" {
						if vt, vT := x.stepTerm(rT, t, Step{Kind: stField, Field: vi}); vT != nil && x.c.sortOf(vT) == sn.ci.VSort {
							s.assume(implies(eq(e, "0"), eq(vt, sx("select", sn.val, kt))))
						}
					}
				}
			}
		}
		return &Val{T: resT, Tup: []*Val{v, {T: errType, S: e}}}, true
	}
	for _, it := range []string{"Iterator", "KeySetIterator"} {
		R["(cosmossdk.io/collections."+it+").Valid"] = valid
		R["(cosmossdk.io/collections."+it+").Next"] = next
		R["(cosmossdk.io/collections."+it+").Close"] = closeIt
		R["(cosmossdk.io/collections."+it+").Key"] = key
	}
	R["(cosmossdk.io/collections.Iterator).KeyValue"] = kv
}
