package main

import (
	"fmt"
	"go/types"
	"strings"

	"golang.org/x/tools/go/ssa"
)

// ---------------------------------------------------------------------------
// Symbolic values
// ---------------------------------------------------------------------------

type stepKind int

const (
	stField stepKind = iota
	stIndex
	stDeref
)

type Step struct {
	Kind  stepKind
	Field int
	Idx   string
}

// Ptr is a statically known lvalue: an object of the path-local object store
// plus a path of field / index / deref steps. Nil is the SMT condition under
// which the pointer is nil.
type Ptr struct {
	Obj  int
	Path []Step
	Nil  string
}

func (p *Ptr) ext(s Step) *Ptr {
	np := make([]Step, len(p.Path)+1)
	copy(np, p.Path)
	np[len(p.Path)] = s
	return &Ptr{Obj: p.Obj, Path: np, Nil: "false"}
}

// SRef is a slice backed by an object of the local store.
type SRef struct {
	Obj int
	Off string
	Len string
}

type TagKind int

const (
	tagNone TagKind = iota
	tagKeeper
	tagKeeperPtr
	tagColl
	tagCollPtr
	tagCtx
	tagOpaque
)

type Tag struct {
	Kind   TagKind
	Module string     // bitcoin / relayer / locking / goat
	Field  string     // collection field name
	T      types.Type // collection type (instantiated)
}

type Closure struct {
	Fn       *ssa.Function
	Bindings []*Val
}

type Val struct {
	T          types.Type
	S          string // SMT term (value form)
	Ptr        *Ptr
	SRef       *SRef
	Tup        []*Val
	Clo        *Closure
	Tag        *Tag
	Dyn        *Val // interface with statically known dynamic value
	Origin     *Ptr // lvalue a value-form slice was loaded from
	OriginTerm string
	Fn         *ssa.Function
	St         *State // state a collection reference was evaluated in (spec expressions)
}

func (v *Val) String() string {
	switch {
	case v == nil:
		return "<nil>"
	case v.Ptr != nil:
		return fmt.Sprintf("ptr(o%d%v)", v.Ptr.Obj, v.Ptr.Path)
	case v.SRef != nil:
		return fmt.Sprintf("sref(o%d,%s,%s)", v.SRef.Obj, v.SRef.Off, v.SRef.Len)
	case v.Tag != nil:
		return fmt.Sprintf("tag(%d,%s.%s)", v.Tag.Kind, v.Tag.Module, v.Tag.Field)
	case v.Tup != nil:
		var xs []string
		for _, e := range v.Tup {
			xs = append(xs, e.String())
		}
		return "(" + strings.Join(xs, ", ") + ")"
	}
	return v.S
}

// ObjMeta is the immutable description of a store object.
type ObjMeta struct {
	ID    int
	T     types.Type // type of the content
	Name  string
	Sort  string
	Fresh bool // allocated by the function under analysis (not reachable from callers)
}

// ---------------------------------------------------------------------------
// Path state
// ---------------------------------------------------------------------------

type Oblig struct {
	Name   string
	Kind   string
	Goal   string
	NPC    int // number of assumptions in force
	NDecl  int
	Trace  string
	Cover  bool // cover query: satisfiable expected
	Label  string
	Props  []string
	SrcPos string
}

type State struct {
	objs   map[int]string    // object id -> current content term
	st     map[string]string // abstract state variable -> current term
	pc     []string          // assumptions, in order
	pcb    []bool            // parallel to pc: true for branch / path-restricting conditions
	decls  []string          // local declarations, in order
	active map[*ssa.BasicBlock]*loopEntry
	trace  []string
	alias  map[int]bool // objects whose content was copied through a pointer copy
	depth  int
	dead   bool
	ghost  map[string]string
	names  map[string]string // term -> constant bound to it on this path
	ver    int               // bumped by every write to objects / abstract state
	id     int               // unique per State object
}

type loopEntry struct {
	decEntry string // value of the decreases measure at the head
}

func (s *State) clone() *State {
	n := &State{objs: make(map[int]string, len(s.objs)), st: make(map[string]string, len(s.st)),
		pc: s.pc[:len(s.pc):len(s.pc)], pcb: s.pcb[:len(s.pcb):len(s.pcb)], decls: s.decls[:len(s.decls):len(s.decls)],
		active: make(map[*ssa.BasicBlock]*loopEntry, len(s.active)), trace: s.trace[:len(s.trace):len(s.trace)],
		alias: make(map[int]bool, len(s.alias)), depth: s.depth, ver: s.ver, id: nextStateID(), ghost: make(map[string]string, len(s.ghost)), names: make(map[string]string, len(s.names))}
	for k, v := range s.names {
		n.names[k] = v
	}
	for k, v := range s.objs {
		n.objs[k] = v
	}
	for k, v := range s.st {
		n.st[k] = v
	}
	for k, v := range s.active {
		n.active[k] = v
	}
	for k, v := range s.alias {
		n.alias[k] = v
	}
	for k, v := range s.ghost {
		n.ghost[k] = v
	}
	return n
}

func (s *State) assume(t string) {
	if t == "true" || t == "" {
		return
	}
	// the same fact is often produced again by repeated loads: keep one copy (looking at the recent tail is enough)
	for i, n := len(s.pc)-1, 0; i >= 0 && n < 400; i, n = i-1, n+1 {
		if s.pc[i] == t {
			return
		}
	}
	s.pc = append(s.pc, t)
	s.pcb = append(s.pcb, false)
}

func (s *State) assumeBranch(t string) {
	if t == "true" || t == "" {
		return
	}
	s.pc = append(s.pc, t)
	s.pcb = append(s.pcb, true)
}

func (s *State) declare(name, sort string) {
	s.decls = append(s.decls, fmt.Sprintf("(declare-const %s %s)", name, sort))
}

var stateIDCounter int

func nextStateID() int { stateIDCounter++; return stateIDCounter }
