package main

import (
	"encoding/json"
	"flag"
	"fmt"
	"os"
	"path/filepath"
	"runtime/debug"
	"runtime/pprof"
	"sort"
	"strings"
	"time"

	"golang.org/x/tools/go/ssa"
)

type ObligSummary struct {
	Name      string   `json:"name"`
	Props     []string `json:"props"`
	Paths     int      `json:"paths"`
	Status    string   `json:"status"` // discharged | failed | cover_ok | cover_failed
	Solver    string   `json:"solver,omitempty"`
	Seconds   float64  `json:"seconds"`
	MaxQuery  float64  `json:"max_query_seconds"`
	SMTBytes  int      `json:"smt_bytes"`
	FailTrace string   `json:"fail_trace,omitempty"`
	FailFile  string   `json:"fail_file,omitempty"`
	FailKind  string   `json:"fail_kind,omitempty"` // sat | unknown | timeout | error
	Model     string   `json:"-"`
	Output    string   `json:"-"`
}

type FuncReport struct {
	Key      string
	Contract *Contract
	Errs     []string
	Notes    []string
	Unknown  map[string]int
	Obligs   []*ObligSummary
	Paths    int
	Pruned   int
	Missing  bool
	Used     []string
}

func verifyOne(prog *Program, cs *ContractSet, con *Contract, workDir string, timeoutS, par int, verbose bool) *FuncReport {
	rep := &FuncReport{Key: con.Key, Contract: con}
	fn := prog.Funcs[con.Key]
	if fn == nil {
		rep.Missing = true
		rep.Errs = append(rep.Errs, "contract target "+con.Key+" not found in the program")
		return rep
	}
	if con.Trusted {
		return rep
	}
	if con.Opts["mode"] == "bvfp" {
		bound, tmo := 16, 90
		if gTier == "thorough" {
			bound, tmo = 32, 600
		}
		if v := con.Opts["bound_"+gTier]; v != "" {
			fmt.Sscan(v, &bound)
		}
		obs, errs := verifyBVFP(prog, con, workDir, bound, tmo)
		rep.Obligs, rep.Errs = obs, errs
		rep.Notes = append(rep.Notes, fmt.Sprintf("bounded-domain: %s verified in bit-vector/IEEE-754 mode for slice lengths below 2^%d only", strings.TrimPrefix(con.Key, modPath+"/"), bound))
		if verbose {
			for _, o := range rep.Obligs {
				fmt.Printf("  %-14s %-70s paths=%d %.2fs %s %s\n", o.Status, o.Name, o.Paths, o.Seconds, o.Solver, o.FailKind)
			}
			for _, e := range rep.Errs {
				fmt.Printf("  ENGINE: %s\n", e)
			}
		}
		return rep
	}
	x := newExec(prog, cs, fn, con)
	func() {
		defer func() {
			if r := recover(); r != nil {
				if se, ok := r.(specErr); ok {
					x.fail("spec error: %s", string(se))
					return
				}
				panic(r)
			}
		}()
		x.verifyFunction()
	}()
	rep.Errs = x.errs
	rep.Paths, rep.Pruned = x.paths, x.pruned
	for n := range x.c.notes {
		rep.Notes = append(rep.Notes, n)
	}
	sort.Strings(rep.Notes)
	rep.Unknown = x.unknown
	for k := range x.usedContracts {
		rep.Used = append(rep.Used, k)
	}
	sort.Strings(rep.Used)
	os.MkdirAll(workDir, 0o755)
	todo := x.obligs
	if gProp != "" {
		// obligations of clauses tagged for other properties only are not part of this check: do not spend solver time on them
		todo = nil
		for _, o := range x.obligs {
			if len(o.Props) == 0 || hasProp(o.Props, gProp) || (gClosure[x.con.Key] && sameProps(o.Props, x.con.Props)) {
				todo = append(todo, o)
			}
		}
	}
	results := solveAll(x, todo, workDir, timeoutS, par)
	byName := map[string]*ObligSummary{}
	var order []string
	for _, ir := range results {
		o := ir.o
		sm := byName[o.Name]
		if sm == nil {
			sm = &ObligSummary{Name: o.Name, Props: o.Props, Status: "discharged"}
			if o.Cover {
				sm.Status = "cover_failed"
			}
			byName[o.Name] = sm
			order = append(order, o.Name)
		}
		sm.Paths++
		sm.Seconds += ir.r.Seconds
		if ir.r.Seconds > sm.MaxQuery {
			sm.MaxQuery = ir.r.Seconds
		}
		if ir.r.Bytes > sm.SMTBytes {
			sm.SMTBytes = ir.r.Bytes
		}
		if sm.Solver == "" || (ir.r.Solver != "trivial" && sm.Solver == "trivial") {
			sm.Solver = ir.r.Solver
		}
		if o.Cover {
			// satisfiable on at least one path (unknown is accepted: it is not a proof of vacuity)
			if ir.r.Status == "sat" || ir.r.Status == "unknown" || ir.r.Status == "timeout" {
				sm.Status = "cover_ok"
			}
			continue
		}
		if ir.r.Status != "unsat" {
			// prefer reporting a sat instance (has a model)
			if sm.Status == "discharged" || (sm.FailKind != "sat" && ir.r.Status == "sat") {
				sm.Status = "failed"
				sm.FailKind = ir.r.Status
				sm.FailTrace = o.Trace
				sm.FailFile = ir.r.File
				sm.Model = ir.r.Model
				sm.Output = ir.r.Output
			}
		}
	}
	for _, n := range order {
		rep.Obligs = append(rep.Obligs, byName[n])
	}
	if verbose {
		for _, o := range rep.Obligs {
			fmt.Printf("  %-14s %-70s paths=%d %.2fs %s %s\n", o.Status, o.Name, o.Paths, o.Seconds, o.Solver, o.FailKind)
			if o.Status == "failed" {
				fmt.Printf("      trace: %s\n      file: %s\n", o.FailTrace, o.FailFile)
			}
		}
		for _, e := range rep.Errs {
			fmt.Printf("  ENGINE: %s\n", e)
		}
	}
	return rep
}

func main() {
	if len(os.Args) < 2 {
		fmt.Fprintln(os.Stderr, "usage: govc check <Cxx>|func <key>|list [flags]")
		os.Exit(2)
	}
	cmd := os.Args[1]
	fs := flag.NewFlagSet(cmd, flag.ExitOnError)
	repo := fs.String("repo", "/repo", "repository to verify")
	tier := fs.String("tier", "quick", "quick|thorough")
	verbose := fs.Bool("v", false, "verbose")
	work := fs.String("work", "", "work dir")
	verif := fs.String("verif", "/verif", "verif dir")
	timeout := fs.Int("timeout", 0, "per-query timeout (s)")
	cpuprof := fs.String("cpuprofile", "", "write a CPU profile")
	updBase := fs.Bool("update-baseline", false, "record the obligation names of this run as the baseline")
	var pos []string
	args := os.Args[2:]
	for len(args) > 0 && !strings.HasPrefix(args[0], "-") {
		pos = append(pos, args[0])
		args = args[1:]
	}
	fs.Parse(args)
	pos = append(pos, fs.Args()...)
	if *work == "" {
		*work = filepath.Join(*verif, "work", fmt.Sprintf("%s-%d", cmd, os.Getpid()))
	}
	tmo := 60
	if *tier == "thorough" {
		tmo = 120
	}
	if *timeout > 0 {
		tmo = *timeout
	}
	gTier = *tier
	debug.SetGCPercent(600) // the loaded program is a large, static heap: collect less often
	if *cpuprof != "" {
		if f, err := os.Create(*cpuprof); err == nil {
			pprof.StartCPUProfile(f)
			defer pprof.StopCPUProfile()
		}
	}
	t0 := time.Now()
	switch cmd {
	case "list":
		prog, err := loadProgram(*repo)
		if err != nil {
			fmt.Fprintln(os.Stderr, err)
			os.Exit(2)
		}
		for _, k := range prog.sortedFuncs() {
			fmt.Println(k)
		}
	case "func":
		prog, err := loadProgram(*repo)
		if err != nil {
			fmt.Fprintln(os.Stderr, err)
			os.Exit(2)
		}
		cs, err := loadContracts(*repo)
		if err != nil {
			fmt.Fprintln(os.Stderr, err)
			os.Exit(2)
		}
		fmt.Printf("loaded in %.1fs\n", time.Since(t0).Seconds())
		bad := 0
		for _, k := range pos {
			var con *Contract
			for ck, c := range cs.ByKey {
				if ck == k || strings.HasSuffix(ck, k) {
					con = c
				}
			}
			if con == nil {
				fmt.Printf("no contract matching %s\n", k)
				bad++
				continue
			}
			fmt.Printf("== %s\n", con.Key)
			rep := verifyOne(prog, cs, con, filepath.Join(*work, sanitize(con.Key)), tmo, 16, true)
			fmt.Printf("   paths=%d pruned=%d errs=%d\n", rep.Paths, rep.Pruned, len(rep.Errs))
			if *verbose {
				for _, n := range rep.Notes {
					fmt.Printf("   note: %s\n", n)
				}
			}
			for _, o := range rep.Obligs {
				if o.Status == "failed" || o.Status == "cover_failed" {
					bad++
				}
			}
			bad += len(rep.Errs)
		}
		if bad > 0 {
			os.Exit(1)
		}
	case "check":
		if len(pos) != 1 {
			fmt.Fprintln(os.Stderr, "usage: govc check <Cxx>")
			os.Exit(2)
		}
		os.Exit(runCheck(pos[0], *repo, *verif, *tier, *work, tmo, *verbose, *updBase))
	case "ssa":
		prog, err := loadProgram(*repo)
		if err != nil {
			fmt.Fprintln(os.Stderr, err)
			os.Exit(2)
		}
		for _, k := range pos {
			for fk, fn := range prog.Funcs {
				if fk == k || strings.HasSuffix(fk, k) {
					dumpFn(fn)
				}
			}
		}
	default:
		fmt.Fprintln(os.Stderr, "unknown command", cmd)
		os.Exit(2)
	}
}

var gTier = "quick"

// gProp: the property being checked (empty for `govc func`): clauses tagged [Cxx] for other properties are skipped
var gProp string

func dumpFn(fn *ssa.Function) {
	fn.WriteTo(os.Stdout)
}

func writeJSON(path string, v any) error {
	b, err := json.MarshalIndent(v, "", " ")
	if err != nil {
		return err
	}
	os.MkdirAll(filepath.Dir(path), 0o755)
	return os.WriteFile(path, b, 0o644)
}
