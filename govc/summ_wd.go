package main

// Dependency summaries for the x/bitcoin withdrawal path (C05) and the voted messages (C01).
// See /verif/notes_ag_wd.md, section "assumptions / trusted contracts".

import (
	"go/types"
)

func init() {
	// goatcrypto.Uint64LE(n...): the little-endian encodings of the arguments, concatenated.
	// A literal argument list is left to the built-in summary (chain of bcat/le64). For a slice passed with `...`
	// the result is le64flat(arr, off, len), the recursive spec function defined in
	// x/bitcoin/types/contracts_verif_withdrawal.go:
	//   le64flat(a, off, n) = n <= 0 ? bempty : bcat(le64flat(a, off, n-1), le64(a[off+n-1]))
	// which is the function computed by the loop of pkg/crypto/hash.go:Uint64LE (PutUint64 of element i at [8i, 8i+8)).
	summaryRegistry[modPath+"/pkg/crypto.Uint64LE"] = func(x *Exec, s *State, args []*Val, resT types.Type) (*Val, bool) {
		if len(args) != 1 {
			return nil, false
		}
		if _, ok := x.concatVarargs(s, args[0], func(e string) string { return e }); ok {
			return nil, false // literal varargs: built-in summary
		}
		if !x.hasSMTDef("le64flat") {
			return nil, false
		}
		srt := x.c.sortOf(args[0].T)
		if srt != "Slc_Int" {
			return nil, false
		}
		t := x.name(s, "u64le_arg", srt, x.termOf(s, args[0]))
		r := sx("le64flat", sx("arr_"+srt, t), sx("off_"+srt, t), sx("len_"+srt, t))
		x.assumeInv(s, resT, r)
		return &Val{T: resT, S: r}, true
	}
}

// hasSMTDef: a contract file defines the SMT function name with //@ smt.
func (x *Exec) hasSMTDef(name string) bool {
	for _, b := range x.cs.SMT {
		for _, t := range b.Triggers {
			if t == name {
				return true
			}
		}
	}
	return false
}
