package main

import (
	"bufio"
	"encoding/json"
	"fmt"
	"os"
	"os/exec"
	"path/filepath"
	"sort"
	"strconv"
	"strings"
	"time"
)

type knownEntry struct {
	Kind       string // known | fixed
	Property   string
	Obligation string
	Rest       string
}

func loadKnown(path string) []knownEntry {
	var out []knownEntry
	fh, err := os.Open(path)
	if err != nil {
		return nil
	}
	defer fh.Close()
	sc := bufio.NewScanner(fh)
	for sc.Scan() {
		l := strings.TrimSpace(sc.Text())
		if l == "" || strings.HasPrefix(l, "#") {
			continue
		}
		var e knownEntry
		switch {
		case strings.HasPrefix(l, "known:"):
			e.Kind = "known"
			l = strings.TrimSpace(l[6:])
		case strings.HasPrefix(l, "fixed:"):
			e.Kind = "fixed"
			l = strings.TrimSpace(l[6:])
		default:
			continue
		}
		for _, f := range strings.Fields(l) {
			if strings.HasPrefix(f, "property=") {
				e.Property = f[9:]
			}
			if strings.HasPrefix(f, "obligation=") {
				e.Obligation = f[11:]
			}
		}
		e.Rest = l
		out = append(out, e)
	}
	return out
}

// gClosure: functions that are part of the running check only through the callee closure (their untagged clauses count)
var gClosure = map[string]bool{}

func sameProps(a, b []string) bool {
	if len(a) != len(b) {
		return false
	}
	for i := range a {
		if a[i] != b[i] {
			return false
		}
	}
	return true
}

func hasProp(ps []string, p string) bool {
	for _, x := range ps {
		if x == p {
			return true
		}
	}
	return false
}

type Evidence struct {
	PropertyID  string         `json:"property_id"`
	Tier        string         `json:"tier"`
	Seed        int            `json:"seed"`
	Level       string         `json:"level"`
	Coverage    map[string]any `json:"coverage"`
	Assumptions []string       `json:"assumptions"`
	WallS       float64        `json:"wall_s"`
	Violations  int            `json:"violations"`
}

func runCheck(prop, repo, verif, tier, work string, tmo int, verbose bool, updateBaseline bool) int {
	gProp = prop
	t0 := time.Now()
	seed, _ := strconv.Atoi(os.Getenv("VERIF_SEED"))
	defer os.RemoveAll(work)
	prog, err := loadProgram(repo)
	if err != nil {
		fmt.Fprintf(os.Stderr, "govc: cannot load %s: %v\n", repo, err)
		return 2
	}
	cs, err := loadContracts(repo)
	if err != nil {
		fmt.Fprintf(os.Stderr, "govc: contracts: %v\n", err)
		return 2
	}
	var keys []string
	for k, c := range cs.ByKey {
		if c.hasProp(prop) {
			keys = append(keys, k)
		}
	}
	sort.Strings(keys)
	if len(keys) == 0 && prop != "C07" {
		fmt.Fprintf(os.Stderr, "govc: no contract carries property %s\n", prop)
		return 2
	}
	known := loadKnown(filepath.Join(verif, "KNOWN_FINDINGS.txt"))
	var baseline map[string][]string
	if b, err := os.ReadFile(filepath.Join(verif, "baseline_obligations.json")); err == nil {
		json.Unmarshal(b, &baseline)
	}
	replayDir := filepath.Join(verif, "replays", prop)
	os.MkdirAll(replayDir, 0o755)

	type failure struct {
		name   string
		rep    *FuncReport
		o      *ObligSummary
		reason string
	}
	var failures []failure
	var all []*ObligSummary
	seen := map[string]bool{}
	var funcs []string
	notes := map[string]bool{}
	trusted := map[string]bool{}
	nObl, nDis, nCover, nCoverOK, nBounded, nBoundedDis := 0, 0, 0, 0, 0, 0
	solverTime := 0.0
	unknownCalls := map[string]int{}
	// The check of a property is closed under "uses the contract of": a callee contract that a function of this check
	// relies on is verified in this check too (otherwise it would be an unverified assumption of this check, even though
	// another property's check verifies it).
	inCheck := map[string]bool{}
	for _, k := range keys {
		inCheck[k] = true
	}
	for ki := 0; ki < len(keys); ki++ {
		k := keys[ki]
		con := cs.ByKey[k]
		if con.Trusted {
			trusted["trusted contract (assumed, body not verified): "+strings.TrimPrefix(k, modPath+"/")] = true
			continue
		}
		if con.Opts["tier"] == "thorough" && tier != "thorough" {
			// too expensive for the per-change tier: verified in the thorough tier only, not counted here
			notes["not verified in the quick tier (thorough only): "+strings.TrimPrefix(k, modPath+"/")] = true
			continue
		}
		rep := verifyOne(prog, cs, con, filepath.Join(work, sanitize(k)), tmo, 16, verbose)
		funcs = append(funcs, strings.TrimPrefix(k, modPath+"/"))
		for _, n := range rep.Notes {
			notes[n] = true
		}
		for n, c := range rep.Unknown {
			unknownCalls[n] += c
		}
		for _, u := range append([]string{k}, rep.Used...) {
			if uc := cs.ByKey[u]; uc != nil {
				for _, e := range uc.Ensures {
					if e.Assumed {
						trusted["assumed clause (relied on by callers, not proved of the body): "+strings.TrimPrefix(u, modPath+"/")+"/ensures."+e.Label] = true
					}
				}
			}
		}
		for _, u := range rep.Used {
			if uc := cs.ByKey[u]; uc != nil && uc.Trusted {
				trusted["trusted contract (assumed, body not verified): "+strings.TrimPrefix(u, modPath+"/")] = true
			} else if uc != nil && !inCheck[u] {
				inCheck[u] = true
				gClosure[u] = true
				keys = append(keys, u)
			}
		}
		short := strings.TrimPrefix(strings.TrimPrefix(k, modPath+"/"), "x/")
		if rep.Missing {
			failures = append(failures, failure{name: short + "/contract.target_missing", rep: rep, reason: "the function named by the contract no longer exists"})
			continue
		}
		for _, e := range rep.Errs {
			failures = append(failures, failure{name: short + "/engine.out_of_subset", rep: rep, reason: e})
		}
		for _, o := range rep.Obligs {
			if !hasProp(o.Props, prop) && !(gClosure[k] && sameProps(o.Props, con.Props)) {
				continue
			}
			seen[o.Name] = true
			all = append(all, o)
			solverTime += o.Seconds
			switch o.Status {
			case "cover_ok":
				nCover++
				nCoverOK++
			case "cover_failed":
				nCover++
				failures = append(failures, failure{name: o.Name, rep: rep, o: o, reason: "vacuity: precondition or invariant unsatisfiable"})
			case "discharged":
				if strings.Contains(o.Name, "@bounded") {
					nBounded++
					nBoundedDis++
				} else {
					nObl++
					nDis++
				}
			case "failed":
				if strings.Contains(o.Name, "@bounded") {
					nBounded++
				} else {
					nObl++
				}
				failures = append(failures, failure{name: o.Name, rep: rep, o: o, reason: "solver: " + o.FailKind})
			}
		}
	}
	if prop == "C07" {
		// effect contract "deterministic" over the call graph of the consensus entry points
		eobs, enotes, eass := effectScan(prog, cs)
		rep := &FuncReport{Key: "effects", Obligs: eobs}
		for _, n := range enotes {
			notes[n] = true
		}
		for _, a := range eass {
			notes[a] = true
		}
		for _, o := range eobs {
			seen[o.Name] = true
			all = append(all, o)
			nObl++
			if o.Status == "discharged" {
				nDis++
			} else {
				failures = append(failures, failure{name: o.Name, rep: rep, o: o, reason: o.Output})
			}
		}
		funcs = append(funcs, fmt.Sprintf("(effect scan: %d entry points)", countEntries(eobs)))
	}
	// contract-derived obligations of the baseline must still be generated
	for _, bn := range baseline[prop] {
		if seen[bn] || updateBaseline {
			// --update-baseline (a maintainer action after an intended contract change) re-records the names
			continue
		}
		kind := ""
		if i := strings.LastIndex(bn, "/"); i >= 0 {
			kind = bn[i+1:]
		}
		if strings.HasPrefix(kind, "ensures.") || strings.HasPrefix(kind, "unreachable.") || strings.HasPrefix(kind, "loop") || strings.HasPrefix(kind, "cover.") || strings.HasPrefix(kind, "frame.") || strings.HasPrefix(kind, "effects.") {
			dup := false
			for _, f := range failures {
				if strings.HasPrefix(bn, strings.SplitN(f.name, "/", 3)[0]) && (strings.HasSuffix(f.name, "target_missing") || strings.HasSuffix(f.name, "out_of_subset")) {
					dup = true
				}
			}
			if !dup {
				nObl++
				failures = append(failures, failure{name: bn, reason: "obligation of the committed baseline is no longer generated (unreachable exit, removed loop or contract)"})
			}
		}
	}

	violations := 0
	knownHit := []string{}
	var lines []string
	for _, f := range failures {
		isKnown := false
		for _, ke := range known {
			if ke.Kind == "known" && ke.Property == prop && ke.Obligation == f.name {
				// a listed finding is identified by its obligation AND its failing input: when a canary input is
				// registered for the obligation it must still reproduce on the real code, otherwise this failure is
				// a different violation of the same property and is reported as one
				var cr ReplayResult
				if hasCanary(f.name, verif) && !tryCanary(f.name, repo, verif, work, &cr) {
					continue
				}
				isKnown = true
				rest := strings.TrimSpace(strings.TrimPrefix(ke.Rest, "property="+prop))
				lines = append(lines, fmt.Sprintf("KNOWN-FINDING: property=%s %s", prop, rest))
				knownHit = append(knownHit, f.name)
			}
		}
		if isKnown {
			continue
		}
		violations++
		rr := ReplayResult{Obligation: f.name, Property: prop, How: f.reason}
		if f.rep != nil {
			rr.Function = f.rep.Key
		}
		if f.o != nil {
			rr.FailKind = f.o.FailKind
			rr.Trace = f.o.FailTrace
			rr.Solver = f.o.Output
			rr.Query = f.o.FailFile
		}
		// a registered canary first (seconds); the model-based search second, within a budget for the whole check:
		// a change that breaks twenty clauses of one function would otherwise search for minutes per clause
		reproduced := tryCanary(f.name, repo, verif, work, &rr)
		if !reproduced && f.o != nil && f.rep != nil && f.o.Status == "failed" {
			if time.Since(replayStart) < replayBudget || replayStart.IsZero() {
				if replayStart.IsZero() {
					replayStart = time.Now()
				}
				reproduced = tryReplay(prog, cs, f.rep, f.o, repo, verif, work, &rr)
			} else {
				rr.How += "; model-based input search skipped (the check's replay budget of 4 min is used up)"
			}
		}
		rfile := filepath.Join(replayDir, sanitize(strings.ReplaceAll(f.name, "/", "__"))+".json")
		if rr.Query != "" {
			// keep the failing query next to the replay file
			if b, err := os.ReadFile(rr.Query); err == nil {
				qf := strings.TrimSuffix(rfile, ".json") + ".smt2"
				os.WriteFile(qf, b, 0o644)
				rr.Query = qf
			}
		}
		writeJSON(rfile, rr)
		suffix := ""
		if !reproduced {
			suffix = " no-failing-input-found"
		}
		lines = append(lines, fmt.Sprintf("VIOLATION property=%s replay=%s obligation=%s%s", prop, rfile, f.name, suffix))
	}
	// evidence
	var samples []any
	for i, o := range all {
		if i < 12 || o.Status == "failed" {
			samples = append(samples, map[string]any{"name": o.Name, "status": o.Status, "paths": o.Paths, "solver": o.Solver, "seconds": round3(o.Seconds), "smt_bytes": o.SMTBytes})
		}
	}
	// the slowest obligations (stability audit: anything near the per-query timeout is fragile)
	bySec := append([]*ObligSummary(nil), all...)
	sort.SliceStable(bySec, func(i, j int) bool { return bySec[i].MaxQuery > bySec[j].MaxQuery })
	var slowest []any
	for i, o := range bySec {
		if i >= 8 {
			break
		}
		slowest = append(slowest, map[string]any{"name": o.Name, "seconds": round3(o.Seconds), "max_query_seconds": round3(o.MaxQuery), "solver": o.Solver, "paths": o.Paths})
	}
	var tb []string
	for n := range trusted {
		tb = append(tb, n)
	}
	var assumptions []string
	for n := range notes {
		if strings.HasPrefix(n, "summary:") || strings.HasPrefix(n, "A-") || strings.HasPrefix(n, "pure-and-irrelevant") {
			tb = append(tb, n)
		} else {
			assumptions = append(assumptions, n)
		}
	}
	for n, c := range unknownCalls {
		assumptions = append(assumptions, fmt.Sprintf("unknown callee %s (%d call sites): result unconstrained", n, c))
	}
	tb = append(tb, "govc VC generator (go/ssa symbolic execution, value-semantics object store)", "solvers: z3-new 5.1.0, z3 4.8.12, cvc5 1.0.3", "Go type checker and go/ssa builder (x/tools v0.29.0)")
	sort.Strings(tb)
	sort.Strings(assumptions)
	assumptions = append(assumptions, standingAssumptions...)
	ev := Evidence{PropertyID: prop, Tier: tier, Seed: seed, Level: "proof", WallS: round3(time.Since(t0).Seconds()), Violations: violations,
		Assumptions: assumptions,
		Coverage: map[string]any{
			// obligations that fail as LISTED known findings are reported on their own (known_findings_hit):
			// "obligations" counts the ones this run set out to discharge
			"obligations":                          nObl - len(knownHit),
			"obligations_failing_as_known_finding": len(knownHit),
			"discharged":                           nDis,
			"bounded_obligations":                  nBounded,
			"bounded_discharged":                   nBoundedDis,
			"checker_cmd":                          fmt.Sprintf("/verif/bin/govc check %s --tier %s --repo %s", prop, tier, repo),
			"trusted_base":                         tb,
			"functions_under_contract":             funcs,
			"samples":                              samples,
			"slowest":                              slowest,
			"solver_seconds_total":                 round3(solverTime),
			"vacuity":                              map[string]any{"cover_queries": nCover, "cover_sat": nCoverOK},
			"known_findings_hit":                   knownHit,
			"per_query_timeout_s":                  tmo,
			"contracts_files":                      relFiles(cs.Files, repo),
		}}
	evFile := filepath.Join(verif, "evidence", prop+".json")
	if repo == "/repo" {
		writeJSON(evFile, ev)
	} else {
		writeJSON(filepath.Join(work+"-evidence", prop+".json"), ev)
	}
	if updateBaseline && violations == 0 {
		if baseline == nil {
			baseline = map[string][]string{}
		}
		var names []string
		for n := range seen {
			names = append(names, n)
		}
		sort.Strings(names)
		baseline[prop] = names
		writeJSON(filepath.Join(verif, "baseline_obligations.json"), baseline)
	}
	for _, l := range lines {
		fmt.Println(l)
	}
	fmt.Printf("govc: property %s: %d obligations, %d discharged, %d failures (%d known), %d functions, %.1fs\n", prop, nObl, nDis, len(failures), len(knownHit), len(funcs), time.Since(t0).Seconds())
	if violations > 0 {
		return 1
	}
	return 0
}

func relFiles(fs []string, repo string) []string {
	var out []string
	for _, f := range fs {
		r, _ := filepath.Rel(repo, f)
		out = append(out, r)
	}
	return out
}

func round3(f float64) float64 { return float64(int(f*1000)) / 1000 }

var standingAssumptions = []string{
	"A-rollback: baseapp discards the writes of a failed transaction / proposal handler (not verified here)",
	"A-mem: no byte string or slice is longer than 2^63-1",
	"A-append: append is modelled as producing a fresh backing array (capacity not modelled)",
	"nil and empty byte strings / slices are identified (as protobuf decoding does)",
	"termination is proved only for loops with a decreases clause",
}

// tryReplay regenerates the failing instance, looks for candidate inputs and replays them on the real code.
func tryReplay(prog *Program, cs *ContractSet, rep *FuncReport, o *ObligSummary, repo, verif, work string, rr *ReplayResult) bool {
	con := rep.Contract
	if con == nil {
		return false
	}
	fn := prog.Funcs[con.Key]
	if fn == nil {
		return false
	}
	// only ensures clauses are replayed generically
	if !strings.Contains(o.Name, "/ensures.") {
		rr.How += "; replay is generated for ensures clauses only"
		return false
	}
	label := o.Name[strings.LastIndex(o.Name, "/ensures.")+9:]
	var clause *Clause
	for i := range con.Ensures {
		l := con.Ensures[i].Label
		if l == "" {
			l = fmt.Sprint(i)
		}
		if l == label {
			clause = &con.Ensures[i]
		}
	}
	if clause == nil {
		return false
	}
	rr.Clause = clause.Expr
	x := newExec(prog, cs, fn, con)
	func() {
		defer func() { recover() }()
		x.verifyFunction()
	}()
	wd := filepath.Join(work, "replay_"+sanitize(o.Name))
	os.MkdirAll(wd, 0o755)
	deadline := time.Now().Add(75 * time.Second)
	tried := 0
	for _, ob := range x.obligs {
		if ob.Name != o.Name || ob.Cover {
			continue
		}
		if tried >= 6 || time.Now().After(deadline) {
			rr.How += "; candidate search stopped at its time budget"
			break
		}
		tried++
		c := x.findCandidate(ob, wd, 6)
		if c == nil {
			continue
		}
		rr.Candidate = c
		ok, src, out := x.replayPure(repo, verif, ob, *clause, c, wd)
		rr.TestFile, rr.TestOutput = src, out
		if ok {
			rr.Reproduced = true
			rr.Trace = ob.Trace
			return true
		}
	}
	return false
}

// tryCanary runs the hand-written canary input registered for an obligation (replay/canaries/index.json)
// against the real code; used where the solver gives no model (nonlinear / quantified obligations).
var replayStart time.Time

const replayBudget = 4 * time.Minute

// canaryRuns caches the outcome of a canary file within one check (several obligations may share a file)
var canaryRuns = map[string]string{}

func hasCanary(obligation, verif string) bool {
	b, err := os.ReadFile(filepath.Join(verif, "replay", "canaries", "index.json"))
	if err != nil {
		return false
	}
	var idx map[string]json.RawMessage
	if json.Unmarshal(b, &idx) != nil {
		return false
	}
	_, ok := idx[obligation]
	return ok
}

func tryCanary(obligation, repo, verif, work string, rr *ReplayResult) bool {
	b, err := os.ReadFile(filepath.Join(verif, "replay", "canaries", "index.json"))
	if err != nil {
		return false
	}
	var idx map[string]struct {
		File, Pkgdir, Input string
		AnyFail             bool `json:"any_fail"`
	}
	if json.Unmarshal(b, &idx) != nil {
		return false
	}
	e, ok := idx[obligation]
	if !ok {
		return false
	}
	src, err := os.ReadFile(filepath.Join(verif, "replay", "canaries", e.File))
	if err != nil {
		return false
	}
	wd := filepath.Join(work, "canary_"+sanitize(obligation))
	os.MkdirAll(wd, 0o755)
	testFile := filepath.Join(wd, "verif_canary_test.go")
	os.WriteFile(testFile, src, 0o644)
	ov := map[string]any{"Replace": map[string]string{filepath.Join(repo, e.Pkgdir, "zz_verif_canary_test.go"): testFile}}
	ovb, _ := json.Marshal(ov)
	ovFile := filepath.Join(wd, "overlay.json")
	os.WriteFile(ovFile, ovb, 0o644)
	txt, cached := canaryRuns[e.File+"|"+e.Pkgdir]
	if !cached {
		cmd := exec.Command("go", "test", "-overlay", ovFile, "-vet=off", "-count=1", "-timeout", "180s", "-run", "^TestVerifReplay$", "./"+e.Pkgdir)
		cmd.Dir = repo
		cmd.Env = append(os.Environ(), "GOFLAGS=-mod=mod", "GOPROXY=off", "GOSUMDB=off", "GOTOOLCHAIN=local")
		out, _ := cmd.CombinedOutput()
		txt = string(out)
		canaryRuns[e.File+"|"+e.Pkgdir] = txt
	}
	rr.TestFile = string(src)
	rr.TestOutput = trunc(txt, 3000)
	rr.How += "; canary input: " + e.Input
	if strings.Contains(txt, "VERIF-REPLAY-VIOLATED") {
		rr.Reproduced = true
		return true
	}
	// canaries derived from the demonstration tests of seeded changes have no marker: the test itself failing
	// (it ran - not a build error - and reported FAIL) is the reproduction
	if e.AnyFail && strings.Contains(txt, "--- FAIL: TestVerifReplay") {
		rr.Reproduced = true
		return true
	}
	return false
}

func countEntries(obs []*ObligSummary) int {
	n := 0
	for _, o := range obs {
		if strings.HasSuffix(o.Name, "/effects.deterministic_sources") {
			n++
		}
	}
	return n
}
