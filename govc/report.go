package main

func runCheck(prop, repo, verif, tier, work string, tmo int, verbose bool) int {
	return 2
}
