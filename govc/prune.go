package main

import (
	"fmt"
	"os"
	"path/filepath"
	"strings"
)

// Pruner decides branch feasibility with a short solver call; an arm is dropped only on "unsat".
type Pruner struct {
	dir   string
	n     int
	calls int
}

func (p *Pruner) check(x *Exec, s *State, cond string) bool {
	p.n++
	p.calls++
	var body strings.Builder
	for _, l := range s.decls {
		body.WriteString(l + "\n")
	}
	for _, a := range s.pc {
		body.WriteString("(assert " + a + ")\n")
	}
	body.WriteString("(assert " + cond + ")\n")
	b := body.String()
	var sb strings.Builder
	sb.WriteString("(set-logic ALL)\n")
	pre := x.c.P.render(b)
	pre, unf := unfoldRecs(pre, b, 1)
	b += unf
	if strings.Contains(b, "Float64") || strings.Contains(pre, "Float64") {
		sb.WriteString("(define-sort Float64 () (_ FloatingPoint 11 53))\n")
	}
	sb.WriteString(pre)
	sb.WriteString(x.c.errAxiom(pre + b))
	sb.WriteString(b)
	sb.WriteString("(check-sat)\n")
	os.MkdirAll(p.dir, 0o755)
	f := filepath.Join(p.dir, fmt.Sprintf("prune%05d.smt2", p.n))
	os.WriteFile(f, []byte(sb.String()), 0o644)
	r := runSolver(solvers[0], f, 2)
	os.Remove(f)
	return r.Status != "unsat"
}

func (p *Pruner) feasible2(x *Exec, s *State, ct, cf string) (bool, bool) {
	a := p.check(x, s, ct)
	if !a {
		return false, true
	}
	return true, p.check(x, s, cf)
}
