package main

import (
	"bufio"
	"fmt"
	"io"
	"os"
	"os/exec"
	"strings"
	"time"
)

// Pruner decides branch feasibility with one incremental z3 process per function under verification.
// The solver's assertion stack mirrors the current path (one push per path assertion, popped back to
// the common prefix when the depth-first exploration moves to another path). Only "unsat" prunes an
// arm, so leaving out the quantified prelude axioms and using a short timeout is sound (fewer prunes,
// never a wrong one).
type Pruner struct {
	cmd     *exec.Cmd
	in      io.WriteCloser
	out     *bufio.Reader
	stack   []string       // asserted path facts, one scope each
	declAt  map[string]int // declaration text -> stack depth at which it was sent
	calls   int
	unsat   int
	dead    bool
	elapsed time.Duration
	errors  int
	log     *os.File
}

func newPruner() *Pruner {
	p := &Pruner{declAt: map[string]int{}}
	p.cmd = exec.Command("z3-new", "-in", "-smt2")
	var err error
	if p.in, err = p.cmd.StdinPipe(); err != nil {
		p.dead = true
		return p
	}
	so, err := p.cmd.StdoutPipe()
	if err != nil {
		p.dead = true
		return p
	}
	p.out = bufio.NewReader(so)
	if err := p.cmd.Start(); err != nil {
		p.dead = true
		return p
	}
	if f := os.Getenv("GOVC_PRUNE_LOG"); f != "" {
		p.log, _ = os.Create(f)
	}
	p.send("(set-option :timeout 60)\n(set-logic ALL)\n")
	return p
}

func (p *Pruner) close() {
	if p == nil || p.dead {
		return
	}
	p.dead = true
	p.in.Close()
	p.cmd.Process.Kill()
	p.cmd.Wait()
}

func (p *Pruner) send(s string) {
	if p.dead {
		return
	}
	if p.log != nil {
		p.log.WriteString(s)
	}
	if _, err := io.WriteString(p.in, s); err != nil {
		p.dead = true
	}
}

func (p *Pruner) declare(text string) {
	if _, ok := p.declAt[text]; ok {
		return
	}
	p.declAt[text] = len(p.stack)
	p.send(text + "\n")
}

func (p *Pruner) popTo(depth int) {
	if depth >= len(p.stack) {
		return
	}
	p.send(fmt.Sprintf("(pop %d)\n", len(p.stack)-depth))
	p.stack = p.stack[:depth]
	for d, at := range p.declAt {
		if at > depth {
			delete(p.declAt, d)
		}
	}
}

func (p *Pruner) sync(x *Exec, s *State) {
	// quantified path facts are left out (sound: fewer facts, fewer prunes) so that every check is quantifier-free
	pc := p.qf(s.pc)
	// common prefix of the asserted stack and the path
	k := 0
	for k < len(p.stack) && k < len(pc) && p.stack[k] == pc[k] {
		k++
	}
	p.popTo(k)
	// declarations first (prelude in order, then error constants, then the path's constants)
	decls := func() {
		for _, n := range x.c.P.order {
			p.declare(x.c.P.items[n].text)
		}
		for g := range x.c.errGlobals {
			p.declare(fmt.Sprintf("(assert (not (= %s 0)))", g))
		}
		for _, d := range s.decls {
			p.declare(d)
		}
	}
	decls()
	for i := k; i < len(pc); i++ {
		p.send("(push 1)\n")
		p.stack = append(p.stack, pc[i])
		p.send("(assert " + pc[i] + ")\n")
	}
}

func (p *Pruner) check(x *Exec, s *State, cond string) bool {
	if p.dead {
		return true
	}
	t0 := time.Now()
	p.calls++
	p.sync(x, s)
	p.send("(push 1)\n(assert " + cond + ")\n(check-sat)\n(pop 1)\n(echo \"@@done\")\n")
	if p.dead {
		return true
	}
	// drain everything up to the marker; any error in between means the answer cannot be trusted
	answer, bad := "", false
	for {
		line, err := p.out.ReadString('\n')
		if err != nil {
			p.dead = true
			return true
		}
		line = strings.TrimSpace(line)
		if p.log != nil {
			p.log.WriteString("; <- " + line + "\n")
		}
		if line == "@@done" || line == "\"@@done\"" {
			break
		}
		if strings.HasPrefix(line, "(error") {
			bad = true
			p.errors++
			continue
		}
		if line == "sat" || line == "unsat" || line == "unknown" {
			answer = line
		}
	}
	p.elapsed += time.Since(t0)
	if bad {
		// a malformed or undeclared term must never prune anything; resynchronise from scratch
		p.popTo(0)
		p.declAt = map[string]int{}
		p.send("(reset)\n(set-option :timeout 60)\n(set-logic ALL)\n")
		return true
	}
	if answer == "unsat" {
		p.unsat++
		return false
	}
	return true
}

func (p *Pruner) feasible2(x *Exec, s *State, ct, cf string) (bool, bool) {
	a := p.check(x, s, ct)
	if !a {
		return false, true
	}
	return true, p.check(x, s, cf)
}

func (p *Pruner) qf(pc []string) []string {
	out := make([]string, 0, len(pc))
	for _, a := range pc {
		if strings.Contains(a, "(forall ") || strings.Contains(a, "(exists ") {
			continue
		}
		out = append(out, a)
	}
	return out
}
