package main

import (
	"fmt"
	"go/types"
	"os"
	"sort"
	"strings"
	"time"

	"golang.org/x/tools/go/ssa"
)

type WriteSite struct {
	Coll   string
	Clause Clause
}

type discovery struct {
	objs  map[int][][]int // object id -> written field paths (nil = whole object)
	state map[string]bool
	loop  *LoopInfo
}

func newExec(prog *Program, cs *ContractSet, fn *ssa.Function, con *Contract) *Exec {
	x := &Exec{c: newCtx(), prog: prog, cs: cs, fn: fn, con: con, objMeta: map[int]*ObjMeta{},
		loops: map[*ssa.Function]map[*ssa.BasicBlock]*LoopInfo{}, counter: map[string]int{}, maxPath: 4000,
		stack: map[*ssa.Function]int{}, unknown: map[string]int{}, colls: map[string]*CollInfo{}, stSorts: map[string]string{},
		smtFunSorts: map[string]string{}, usedContracts: map[string]bool{}}
	declBitFuns(x.c)
	x.c.constArr("Int", "Bytes", "bempty") // named zarr!Int_Bytes_bempty, used by contract SMT text
	for _, b := range orderSMT(cs.SMT) {
		x.c.P.axiom(b.Name, b.Triggers, b.Text)
		for _, m := range defResultRe.FindAllStringSubmatch(b.Text, -1) {
			x.smtFunSorts[m[1]] = m[2]
		}
	}
	return x
}

// verifyFunction generates all obligations of fn under its contract.
func (x *Exec) verifyFunction() {
	fn, con := x.fn, x.con
	if len(fn.Blocks) == 0 {
		x.fail("function %s has no body", fn.Name())
		return
	}
	s := &State{objs: map[int]string{}, st: map[string]string{}, active: map[*ssa.BasicBlock]*loopEntry{}, alias: map[int]bool{}, ghost: map[string]string{}}
	env := map[ssa.Value]*Val{}
	for _, p := range fn.Params {
		v := x.freshVal(s, p.Type(), p.Name())
		env[p] = v
	}
	for _, fv := range fn.FreeVars {
		// closures verified on their own: free variables are pointers to the parent's locals
		v := x.freshVal(s, fv.Type(), fv.Name())
		if v.Ptr != nil {
			v.Ptr.Nil = "false"
		}
		env[fv] = v
	}
	x.env0 = env
	x.t0 = time.Now()
	x.entry = s.clone()
	// requires
	se := x.specEnv(s, env, nil)
	for i, r := range con.Requires {
		if len(r.Props) > 0 && gProp != "" && !hasProp(r.Props, gProp) {
			continue // a precondition stated for another property only (e.g. an induction hypothesis of that property)
		}
		se.where = fmt.Sprintf("%s requires#%d", con.Key, i)
		t, err := x.evalSpec(se, r.Expr)
		if err != nil {
			x.fail("%v", err)
			continue
		}
		s.assume(t)
	}
	x.entry = s.clone()
	if con.Opts["prune"] != "0" {
		x.pruner = newPruner()
		defer x.pruner.close()
	}
	// vacuity: the precondition must be satisfiable
	x.cover(s, "requires_sat")
	x.runBlock(s, cloneEnv(env), &Frame{fn: fn, isTop: true}, fn.Blocks[0], nil)
}

func (x *Exec) cover(s *State, label string) {
	o := &Oblig{Name: fmt.Sprintf("%s/cover.%s", shortFuncName(x.fn), label), Kind: "cover", Label: label, Goal: "false", Cover: true, Props: x.con.Props}
	o.pcSnap(s)
	x.obligs = append(x.obligs, o)
}

func (x *Exec) specEnv(s *State, env map[ssa.Value]*Val, at *ssa.BasicBlock) *SpecEnv {
	vars := x.specVars(s, x.fn, env, at)
	oldVars := x.specVars(x.entry, x.fn, x.env0, nil)
	var pkg *types.Package
	if x.fn.Pkg != nil {
		pkg = x.fn.Pkg.Pkg
	} else if x.fn.Parent() != nil && x.fn.Parent().Pkg != nil {
		pkg = x.fn.Parent().Pkg.Pkg
	}
	var lets [][2]string
	if x.con != nil {
		lets = x.con.Lets
	}
	old := &SpecEnv{x: x, s: x.entry, vars: oldVars, pkg: pkg, bound: map[string]string{}, lets: lets}
	return &SpecEnv{x: x, s: s, old: old, vars: vars, pkg: pkg, bound: map[string]string{}, lets: lets}
}

func (x *Exec) curSpecEnv(s *State) *SpecEnv {
	if x.curEnv == nil {
		return nil
	}
	return x.specEnv(s, x.curEnv, x.curBlock)
}

// exit: a return of the function under verification.
func (x *Exec) exit(s *State, env map[ssa.Value]*Val, rs []*Val) {
	x.paths++
	x.exits++
	if os.Getenv("GOVC_PROGRESS") != "" && x.disc == nil && x.exits%20 == 0 {
		pc, pu := 0, 0
		if x.pruner != nil {
			pc, pu = x.pruner.calls, x.pruner.unsat
		}
		fmt.Fprintf(os.Stderr, "progress: exits=%d pruned=%d ifconv=%d prunerCalls=%d unsat=%d obligs=%d pure=%d elapsed=%s\n", x.exits, x.pruned, x.ifconv, pc, pu, len(x.obligs), len(x.pureCache), time.Since(x.t0).Round(time.Second))
	}
	if x.paths > x.maxPath {
		x.tooMany = true
		x.fail("more than %d paths in %s", x.maxPath, x.fn.Name())
		return
	}
	if x.disc != nil {
		return
	}
	con := x.con
	se := x.specEnv(s, env, nil)
	// results
	res := x.fn.Signature.Results()
	nonErr := 0
	for i := 0; i < res.Len() && i < len(rs); i++ {
		rv := res.At(i)
		se.vars[fmt.Sprintf("ret%d", i)] = rs[i]
		if rv.Name() != "" && rv.Name() != "_" {
			se.vars[rv.Name()] = rs[i]
		}
		if isErrorType(rv.Type()) {
			se.vars["err"] = rs[i]
		} else {
			if nonErr == 0 {
				se.vars["result"] = rs[i]
			}
			nonErr++
		}
	}
	for i, e := range con.Ensures {
		lbl := e.Label
		if lbl == "" {
			lbl = fmt.Sprint(i)
		}
		if e.Assumed {
			continue // assumed clause: relied on by callers, not an obligation of the body (listed as an assumption)
		}
		se.where = fmt.Sprintf("%s ensures.%s", con.Key, lbl)
		t, err := x.evalSpec(se, e.Expr)
		if err != nil {
			x.fail("%v", err)
			continue
		}
		x.oblige(s, "ensures", lbl, t, e.Props)
	}
	// frame: state components outside modifies are unchanged
	if con.HasMod {
		mods := map[string]bool{}
		for _, m := range con.Modifies {
			mods[m] = true
		}
		var names []string
		for n := range s.st {
			names = append(names, n)
		}
		sort.Strings(names)
		var goals []string
		for _, n := range names {
			base := n[:strings.LastIndex(n, ".")]
			if mods["st."+base] || mods["st.*"] {
				continue
			}
			e0 := "st0!" + n
			if s.st[n] != e0 {
				goals = append(goals, eq(s.st[n], e0))
			}
		}
		x.oblige(s, "frame", "state", and(goals...), nil)
		// parameter objects
		goals = nil
		for _, p := range x.fn.Params {
			v := x.env0[p]
			if v == nil || v.Ptr == nil || v.Ptr.Obj == 0 {
				continue
			}
			if mods[p.Name()] {
				continue
			}
			if _, isMap := p.Type().Underlying().(*types.Map); isMap && mods[p.Name()] {
				continue
			}
			if s.objs[v.Ptr.Obj] != x.entry.objs[v.Ptr.Obj] {
				goals = append(goals, eq(s.objs[v.Ptr.Obj], x.entry.objs[v.Ptr.Obj]))
			}
		}
		x.oblige(s, "frame", "params", and(goals...), nil)
	}
}

// loopArrive handles the cut point at a loop head.
func (x *Exec) loopArrive(s *State, env map[ssa.Value]*Val, fr *Frame, li *LoopInfo, first bool) {
	if x.disc != nil {
		if first {
			// nested loop during discovery: havoc its phis and go on (write discovery only needs coverage of the body)
			for _, in := range li.Head.Instrs {
				if ph, ok := in.(*ssa.Phi); ok {
					env[ph] = x.rehavoc(s, env[ph], ph)
				}
			}
			s.active[li.Head] = &loopEntry{}
		}
		return
	}
	var spec *LoopSpec
	if x.con != nil {
		spec = x.con.Loops[li.Ord]
	}
	if spec == nil {
		x.fail("loop %d of %s has no invariant (contract %s)", li.Ord, fr.fn.Name(), x.con.Key)
		spec = &LoopSpec{}
	}
	check := func(kind string) {
		se := x.specEnv(s, env, li.Head)
		for i, inv := range spec.Invariants {
			lbl := inv.Label
			if lbl == "" {
				lbl = fmt.Sprint(i)
			}
			se.where = fmt.Sprintf("%s loop %d invariant.%s", x.con.Key, li.Ord, lbl)
			t, err := x.evalSpec(se, inv.Expr)
			if err != nil {
				x.fail("%v", err)
				continue
			}
			x.oblige(s, fmt.Sprintf("loop%d.%s", li.Ord, kind), lbl, t, inv.Props)
		}
	}
	measure := func() string {
		if spec.Decreases == "" {
			return ""
		}
		se := x.specEnv(s, env, li.Head)
		se.where = fmt.Sprintf("%s loop %d decreases", x.con.Key, li.Ord)
		t, err := x.evalSpec(se, spec.Decreases)
		if err != nil {
			x.fail("%v", err)
			return ""
		}
		return t
	}
	if !first {
		check("preserved")
		if m := measure(); m != "" {
			e := s.active[li.Head].decEntry
			x.oblige(s, fmt.Sprintf("loop%d.decreases", li.Ord), "measure", and(sx(">=", e, "0"), sx("<", m, e)), nil)
		}
		return
	}
	check("init")
	// discover what the body writes
	ws := x.discover(s, env, fr, li)
	// havoc: phis of the header
	for _, in := range li.Head.Instrs {
		if ph, ok := in.(*ssa.Phi); ok {
			env[ph] = x.rehavoc(s, env[ph], ph)
		}
	}
	var ids []int
	for id := range ws.objs {
		ids = append(ids, id)
	}
	sort.Ints(ids)
	for _, id := range ids {
		if _, live := s.objs[id]; !live {
			continue
		}
		x.havocObjPaths(s, id, ws.objs[id])
	}
	var names []string
	for n := range ws.state {
		names = append(names, n)
	}
	sort.Strings(names)
	for _, n := range names {
		x.stHavoc(s, n)
	}
	// assume the invariant
	se := x.specEnv(s, env, li.Head)
	for _, inv := range spec.Invariants {
		se.where = fmt.Sprintf("%s loop %d invariant", x.con.Key, li.Ord)
		t, err := x.evalSpec(se, inv.Expr)
		if err != nil {
			continue
		}
		s.assume(t)
	}
	s.active[li.Head] = &loopEntry{decEntry: measure()}
	x.coverLoop(s, li)
}

func (x *Exec) coverLoop(s *State, li *LoopInfo) {
	o := &Oblig{Name: fmt.Sprintf("%s/cover.loop%d_invariant_sat", shortFuncName(x.fn), li.Ord), Kind: "cover", Label: fmt.Sprintf("loop%d", li.Ord), Goal: "false", Cover: true, Props: x.con.Props}
	o.pcSnap(s)
	x.obligs = append(x.obligs, o)
}

// rehavoc replaces a loop-carried value by an unconstrained one of the same shape.
func (x *Exec) rehavoc(s *State, v *Val, ph *ssa.Phi) *Val {
	if v != nil && (v.Tag != nil || v.Clo != nil || v.Fn != nil) {
		return v
	}
	name := ph.Comment
	if name == "" {
		name = ph.Name()
	}
	return x.freshVal(s, ph.Type(), name)
}

func (x *Exec) havocObjPaths(s *State, id int, paths [][]int) {
	s.ver++
	m := x.objMeta[id]
	whole := false
	for _, p := range paths {
		if p == nil || len(p) == 0 {
			whole = true
		}
	}
	if whole || x.c.structInfo(m.T) == nil {
		old := s.objs[id]
		n := x.fresh(s, "hv_"+sanitize(m.Name)+"_o"+fmt.Sprint(id), m.Sort)
		if m.Sort == "Bytes" {
			s.assume(eq(sx("blen", n), sx("blen", old)))
		}
		if strings.HasPrefix(m.Sort, "Slc_") && m.Fresh {
			// a local backing array keeps its length
			s.assume(and(eq(sx("len_"+m.Sort, n), sx("len_"+m.Sort, old)), eq(sx("off_"+m.Sort, n), sx("off_"+m.Sort, old))))
		}
		s.objs[id] = n
		return
	}
	seen := map[string]bool{}
	for _, p := range paths {
		k := fmt.Sprint(p)
		if seen[k] {
			continue
		}
		seen[k] = true
		// type at the path
		T := m.T
		var steps []Step
		for _, f := range p {
			steps = append(steps, Step{Kind: stField, Field: f})
			T = elemTypeAt(T, Step{Kind: stField, Field: f})
		}
		fv := x.fresh(s, "hv_"+sanitize(m.Name), x.c.sortOf(T))
		x.assumeInv(s, T, fv)
		nt := x.updTerm(s, m.T, s.objs[id], steps, fv)
		s.objs[id] = x.name(s, "o"+fmt.Sprint(id), m.Sort, nt)
	}
}

// discover symbolically executes the loop body once from a fully havocked state and records writes.
func (x *Exec) discover(s *State, env map[ssa.Value]*Val, fr *Frame, li *LoopInfo) *discovery {
	d := &discovery{objs: map[int][][]int{}, state: map[string]bool{}, loop: li}
	s2 := s.clone()
	env2 := cloneEnv(env)
	for id := range s2.objs {
		m := x.objMeta[id]
		n := x.fresh(s2, "dv", m.Sort)
		s2.objs[id] = n
	}
	for n := range s2.st {
		x.stHavoc(s2, n)
	}
	for _, in := range li.Head.Instrs {
		if ph, ok := in.(*ssa.Phi); ok {
			env2[ph] = x.rehavoc(s2, env2[ph], ph)
		}
	}
	s2.active[li.Head] = &loopEntry{}
	nobl, npaths, nexits := len(x.obligs), x.paths, x.exits
	savePr := x.pruner
	x.pruner = nil
	x.disc = d
	nf := &Frame{fn: fr.fn, isTop: true, depth: fr.depth}
	x.instrs(s2, env2, nf, li.Head, x.firstNonPhi(li.Head))
	x.disc = nil
	x.pruner = savePr
	for _, o := range x.obligs[nobl:] {
		delete(obligStore, o)
	}
	x.obligs = x.obligs[:nobl]
	x.paths, x.exits = npaths, nexits
	x.tooMany = false
	return d
}

// recordWrite notes a store for loop write-set discovery.
func (x *Exec) recordWrite(p *Ptr) {
	if x.disc == nil {
		return
	}
	var fp []int
	for _, st := range p.Path {
		if st.Kind != stField {
			break
		}
		fp = append(fp, st.Field)
	}
	if len(fp) == 0 {
		x.disc.objs[p.Obj] = append(x.disc.objs[p.Obj], nil)
		return
	}
	x.disc.objs[p.Obj] = append(x.disc.objs[p.Obj], fp)
}

// applyContract: modular call — assert requires, havoc modifies, assume ensures.
func (x *Exec) applyContract(s *State, fn *ssa.Function, con *Contract, args []*Val, resT types.Type, cont func(*State, *Val)) {
	x.usedContracts[con.Key] = true
	vars := map[string]*Val{}
	for i, p := range fn.Params {
		if i < len(args) {
			vars[p.Name()] = args[i]
		}
	}
	pre := s.clone()
	var pkg *types.Package
	if fn.Pkg != nil {
		pkg = fn.Pkg.Pkg
	}
	oldEnv := &SpecEnv{x: x, s: pre, vars: vars, pkg: pkg, bound: map[string]string{}, lets: con.Lets}
	se := &SpecEnv{x: x, s: s, old: oldEnv, vars: vars, pkg: pkg, bound: map[string]string{}, lets: con.Lets}
	x.counter["call."+fn.Name()]++
	for i, r := range con.Requires {
		lbl := r.Label
		if lbl == "" {
			lbl = fmt.Sprint(i)
		}
		if len(r.Props) > 0 && gProp != "" && !hasProp(r.Props, gProp) {
			continue // neither demanded nor assumed outside its property
		}
		se.where = fmt.Sprintf("call %s requires.%s", con.Key, lbl)
		t, err := x.evalSpec(se, r.Expr)
		if err != nil {
			x.fail("%v", err)
			continue
		}
		if x.disc == nil {
			x.oblige(s, "call."+fn.Name()+".requires", lbl, t, nil)
		}
		s.assume(t)
	}
	// havoc modifies
	for _, m := range con.Modifies {
		switch {
		case m == "st.*":
			for n := range x.stSorts {
				x.stHavocTouch(s, n)
			}
		case strings.HasPrefix(m, "st."):
			parts := strings.Split(m, ".")
			if len(parts) != 3 {
				x.fail("bad modifies entry %q in %s", m, con.Key)
				continue
			}
			ct := x.collType(parts[1], parts[2])
			if ct == nil {
				x.fail("modifies %q: no such collection", m)
				continue
			}
			ci := x.collInfo(&Tag{Kind: tagColl, Module: parts[1], Field: parts[2], T: ct})
			for _, c := range ci.components() {
				x.stGet(s, c.name, c.sort)
				x.stSorts[c.name] = c.sort
				s.st[c.name] = x.fresh(s, "hv_"+c.name, c.sort)
				if x.disc != nil {
					x.disc.state[c.name] = true
				}
			}
		default:
			if v, ok := vars[m]; ok && v.Ptr != nil && v.Ptr.Obj != 0 {
				x.havocObj(s, v.Ptr.Obj)
			} else if ok && v.SRef != nil {
				x.havocObj(s, v.SRef.Obj)
			}
		}
	}
	if !con.HasMod {
		// no frame given: everything reachable may change
		x.c.note("contract " + con.Key + " has no modifies clause: all state and pointer arguments havocked at calls")
		for n := range x.stSorts {
			x.stHavocTouch(s, n)
		}
		for _, a := range args {
			if a.Ptr != nil && a.Ptr.Obj != 0 {
				x.havocObj(s, a.Ptr.Obj)
			}
		}
	}
	res := x.freshResult(s, resT, fn.Name())
	sig := fn.Signature.Results()
	if x.con != nil && x.con.Opts["guard"] == fn.Name() && res != nil {
		// remember the error result of the guarding call: state writes of the caller must come after its success
		for i := 0; i < sig.Len(); i++ {
			if isErrorType(sig.At(i).Type()) {
				if sig.Len() == 1 {
					s.ghost["guard"] = eq(res.S, "0")
				} else {
					s.ghost["guard"] = eq(res.Tup[i].S, "0")
				}
			}
		}
	}
	nonErr := 0
	for i := 0; i < sig.Len(); i++ {
		var rv *Val
		if sig.Len() == 1 {
			rv = res
		} else if res != nil && i < len(res.Tup) {
			rv = res.Tup[i]
		}
		if rv == nil {
			continue
		}
		se.vars[fmt.Sprintf("ret%d", i)] = rv
		if n := sig.At(i).Name(); n != "" && n != "_" {
			se.vars[n] = rv
		}
		if isErrorType(sig.At(i).Type()) {
			se.vars["err"] = rv
		} else {
			if nonErr == 0 {
				se.vars["result"] = rv
			}
			nonErr++
			if rv.Ptr != nil {
				// a returned pointer: nil-ness is whatever the contract says
			}
		}
	}
	for _, e := range con.Ensures {
		se.where = fmt.Sprintf("call %s ensures.%s", con.Key, e.Label)
		t, err := x.evalSpec(se, e.Expr)
		if err != nil {
			x.fail("%v", err)
			continue
		}
		s.assume(t)
	}
	cont(s, res)
}

func (x *Exec) stHavocTouch(s *State, n string) {
	x.stHavoc(s, n)
	if x.disc != nil {
		x.disc.state[n] = true
	}
}

// orderSMT puts a contract SMT block after the blocks that define the symbols it uses.
func orderSMT(bs []smtBlock) []smtBlock {
	var out []smtBlock
	done := map[string]bool{}
	var visit func(b smtBlock, depth int)
	visit = func(b smtBlock, depth int) {
		if done[b.Name] || depth > 20 {
			return
		}
		done[b.Name] = true
		for _, o := range bs {
			if o.Name == b.Name || done[o.Name] {
				continue
			}
			for _, t := range o.Triggers {
				if containsSym(b.Text, t) {
					done[b.Name] = false
					visit(o, depth+1)
					done[b.Name] = true
					break
				}
			}
		}
		out = append(out, b)
	}
	for _, b := range bs {
		visit(b, 0)
	}
	return out
}
