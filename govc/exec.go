package main

import (
	"fmt"
	"go/constant"
	"go/token"
	"go/types"
	"sort"
	"strings"
	"time"

	"golang.org/x/tools/go/ssa"
)

// ---------------------------------------------------------------------------
// Executor
// ---------------------------------------------------------------------------

type LoopInfo struct {
	Ord    int
	Head   *ssa.BasicBlock
	Blocks map[*ssa.BasicBlock]bool
}

type Frame struct {
	fn     *ssa.Function
	ret    func(s *State, results []*Val)
	depth  int
	defers []*ssa.Defer
	isTop  bool
}

type Exec struct {
	c             *Ctx
	prog          *Program
	cs            *ContractSet
	fn            *ssa.Function
	con           *Contract
	objMeta       map[int]*ObjMeta
	nextObj       int
	obligs        []*Oblig
	paths         int
	pruned        int
	errs          []string
	loops         map[*ssa.Function]map[*ssa.BasicBlock]*LoopInfo
	names         map[*ssa.Function]map[string][]ssa.Value
	entry         *State
	env0          map[ssa.Value]*Val
	counter       map[string]int
	maxPath       int
	tooMany       bool
	pruner        *Pruner
	exits         int
	side          map[string]*Val
	stack         map[*ssa.Function]int
	unknown       map[string]int
	colls         map[string]*CollInfo
	stSorts       map[string]string
	smtFunSorts   map[string]string
	usedContracts map[string]bool
	curEnv        map[ssa.Value]*Val
	curBlock      *ssa.BasicBlock
	disc          *discovery
	unfoldLevels  int
	tmp           map[int]string
	exactDec      bool
	pureCache     map[string]*pureEntry
	ifconv        int
	noName        bool // specification evaluation: keep closed terms, bind no names
	specSink      *State
	t0            time.Time
}

func (x *Exec) fail(format string, a ...any) {
	msg := fmt.Sprintf(format, a...)
	for _, e := range x.errs {
		if e == msg {
			return
		}
	}
	x.errs = append(x.errs, msg)
}

// env is stored inside State.ghost? no: separate map on State
func (x *Exec) newObj(s *State, T types.Type, name string, term string, fresh bool) int {
	x.nextObj++
	id := x.nextObj
	x.objMeta[id] = &ObjMeta{ID: id, T: T, Name: name, Sort: x.contentSort(T), Fresh: fresh}
	s.objs[id] = term
	if !fresh {
		// read-only temporaries created while evaluating specifications are visible from every state
		if x.tmp == nil {
			x.tmp = map[int]string{}
		}
		x.tmp[id] = term
	}
	return id
}

// contentSort: the sort of an object's content term.
func (x *Exec) contentSort(T types.Type) string {
	if m, ok := T.Underlying().(*types.Map); ok {
		return x.mapSort(m)
	}
	return x.c.sortOf(T)
}

func (x *Exec) mapSort(m *types.Map) string {
	ks, vs := x.c.sortOf(m.Key()), x.c.sortOf(m.Elem())
	name := "GoMap_" + sortMangle(ks) + "_" + sortMangle(vs)
	x.c.P.declare(name, fmt.Sprintf("(declare-datatypes ((%s 0)) (((mk_%s (dom_%s (Array %s Bool)) (val_%s (Array %s %s))))))", name, name, name, ks, name, ks, vs))
	return name
}

func (x *Exec) fresh(s *State, prefix, sort string) string {
	n := x.c.freshName(prefix)
	s.declare(n, sort)
	return n
}

// name binds a (possibly large) term to a fresh constant.
func (x *Exec) name(s *State, prefix, sort, term string) string {
	if !strings.HasPrefix(term, "(") || x.noName {
		return term
	}
	if s.names == nil {
		s.names = map[string]string{}
	}
	if n, ok := s.names[term]; ok {
		return n
	}
	n := x.fresh(s, prefix, sort)
	s.assume(eq(n, term))
	s.names[term] = n
	return n
}

func (x *Exec) zeroOf(T types.Type) string {
	if namedPath(T) == "time.Time" {
		x.c.P.declare("timezero", "(declare-const timezero Int)")
		return "timezero"
	}
	if m, ok := T.Underlying().(*types.Map); ok {
		ms := x.mapSort(m)
		return fmt.Sprintf("(mk_%s ((as const (Array %s Bool)) false) %s)", ms, x.c.sortOf(m.Key()), x.c.constArr(x.c.sortOf(m.Key()), x.c.sortOf(m.Elem()), x.zeroOf(m.Elem())))
	}
	srt := x.c.sortOf(T)
	switch {
	case srt == "Int":
		return "0"
	case srt == "Bool":
		return "false"
	case srt == "Bytes":
		if a, ok := T.Underlying().(*types.Array); ok {
			return fmt.Sprintf("(bzeros %d)", a.Len())
		}
		return "bempty"
	case srt == "Float64":
		return "(_ +zero 11 53)"
	case srt == "Coins":
		return "((as const (Array Bytes Int)) 0)"
	case strings.HasPrefix(srt, "Opt_"):
		return "none_" + srt
	case strings.HasPrefix(srt, "Slc_"):
		var et types.Type
		n := "0"
		switch u := T.Underlying().(type) {
		case *types.Slice:
			et = u.Elem()
		case *types.Array:
			et = u.Elem()
			n = fmt.Sprint(u.Len())
		}
		return fmt.Sprintf("(mk_%s %s 0 %s)", srt, x.c.constArr("Int", x.c.sortOf(et), x.zeroOf(et)), n)
	}
	if si := x.c.structInfo(T); si != nil {
		if len(si.Fields) == 0 {
			return si.Ctor
		}
		var fs []string
		for _, f := range si.Fields {
			fs = append(fs, x.zeroOf(f.T))
		}
		return sx(si.Ctor, fs...)
	}
	return "0"
}

// ---------------------------------------------------------------------------
// Value conversion
// ---------------------------------------------------------------------------

// termOf renders a Val as an SMT term of sort sortOf(v.T) (content sort for maps).
func (x *Exec) termOf(s *State, v *Val) string {
	switch {
	case v.Ptr != nil:
		T := v.T
		if _, ok := T.Underlying().(*types.Map); ok {
			return x.loadTerm(s, v.Ptr)
		}
		srt := x.c.sortOf(T)
		if srt == "Int" {
			// opaque pointee: a holder object created by valOf carries the opaque id itself, so that a pointer
			// read from a slice or a field keeps its identity when it is passed on (termOf(valOf(t)) == t)
			if m := x.objMeta[v.Ptr.Obj]; m != nil && !m.Fresh && len(v.Ptr.Path) == 0 {
				if id, ok := s.objs[v.Ptr.Obj]; ok && id != "" {
					return ite(v.Ptr.Nil, "0", id)
				}
				if id, ok := x.tmp[v.Ptr.Obj]; ok {
					return ite(v.Ptr.Nil, "0", id)
				}
			}
			if n := len(v.Ptr.Path); n > 0 && v.Ptr.Path[n-1].Kind == stDeref {
				// an opaque pointer stored in a slot (slice element, field): the slot holds the opaque id
				slot := *v.Ptr
				slot.Path = slot.Path[:n-1]
				return x.loadTerm(s, &slot)
			}
			return ite(v.Ptr.Nil, "0", fmt.Sprintf("(objref %d)", v.Ptr.Obj))
		}
		inner := x.loadTerm(s, v.Ptr)
		if len(v.Ptr.Path) > 0 {
			// copying a pointer into another structure: value semantics copies the pointee
			s.alias[v.Ptr.Obj] = true
		}
		return ite(v.Ptr.Nil, "none_"+srt, sx("some_"+srt, inner))
	case v.SRef != nil:
		ot := s.objs[v.SRef.Obj]
		if x.c.sortOf(v.T) == "Bytes" {
			if v.SRef.Off == "0" && v.SRef.Len == x.objLen(s, v.SRef.Obj) {
				return ot
			}
			return sx("bsub", ot, v.SRef.Off, add(v.SRef.Off, v.SRef.Len))
		}
		srt := x.c.sortOf(v.T)
		return sx("mk_"+srt, sx("arr_"+srt, ot), add(sx("off_"+srt, ot), v.SRef.Off), v.SRef.Len)
	case v.Tag != nil:
		return "0"
	case v.Clo != nil || v.Fn != nil:
		return "0"
	case v.S != "":
		return v.S
	}
	return "0"
}

func (x *Exec) objLen(s *State, obj int) string {
	m := x.objMeta[obj]
	if a, ok := m.T.Underlying().(*types.Array); ok {
		return fmt.Sprint(a.Len())
	}
	if m.Sort == "Bytes" {
		return sx("blen", s.objs[obj])
	}
	return sx("len_"+m.Sort, s.objs[obj])
}

// valOf wraps a term of sortOf(T) as a Val.
func (x *Exec) valOf(s *State, T types.Type, term string) *Val {
	switch u := T.Underlying().(type) {
	case *types.Pointer:
		srt := x.c.sortOf(T)
		if srt == "Int" {
			if tg := x.tagForType(T); tg != nil {
				return &Val{T: T, Tag: tg}
			}
			// opaque pointee: a temp object holding the opaque id
			id := x.newObj(s, u.Elem(), "opq", term, false)
			return &Val{T: T, Ptr: &Ptr{Obj: id, Nil: eq(term, "0")}}
		}
		id := x.newObj(s, T, "tmp", term, false)
		x.objMeta[id].Name = "tmp"
		return &Val{T: T, Ptr: &Ptr{Obj: id, Path: []Step{{Kind: stDeref}}, Nil: fmt.Sprintf("((_ is none_%s) %s)", srt, term)}}
	case *types.Map:
		id := x.newObj(s, T, "map", term, false)
		return &Val{T: T, Ptr: &Ptr{Obj: id, Nil: "false"}}
	case *types.Struct:
		if tg := x.tagForType(T); tg != nil {
			return &Val{T: T, Tag: tg}
		}
	case *types.Signature:
		return &Val{T: T, S: term}
	}
	return &Val{T: T, S: term}
}

func (x *Exec) tagForType(T types.Type) *Tag {
	t := deref(T)
	np := namedPath(t)
	if strings.HasPrefix(np, modPath+"/x/") && (strings.HasSuffix(np, "/keeper.Keeper") || strings.HasSuffix(np, "/keeper.msgServer") || strings.HasSuffix(np, "/keeper.queryServer")) {
		mod := strings.Split(strings.TrimPrefix(np, modPath+"/x/"), "/")[0]
		k := tagKeeper
		if _, ok := T.Underlying().(*types.Pointer); ok {
			k = tagKeeperPtr
		}
		return &Tag{Kind: k, Module: mod}
	}
	if np == "context.Context" || np == "github.com/cosmos/cosmos-sdk/types.Context" {
		return &Tag{Kind: tagCtx}
	}
	return nil
}

func (x *Exec) assumeInv(s *State, T types.Type, term string) {
	if r := intRange(T, term); r != "true" {
		s.assume(r)
		return
	}
	srt := x.c.sortOf(T)
	if strings.HasPrefix(srt, "Slc_") {
		s.assume(and(sx(">=", sx("len_"+srt, term), "0"), sx("<", sx("len_"+srt, term), pow2(63)), sx(">=", sx("off_"+srt, term), "0")))
		if namedPath(T) == "github.com/cosmos/cosmos-sdk/types.Coins" {
			// values of type sdk.Coins held by the program are valid (sorted, unique denoms, positive amounts): A-sdk
			x.coinSorts()
			s.assume(sx("coins.wf", term))
		}
	}
	if a, ok := T.Underlying().(*types.Array); ok && srt == "Bytes" {
		s.assume(eq(sx("blen", term), fmt.Sprint(a.Len())))
	}
}

// freshVal creates an unconstrained value of type T (type invariants assumed).
func (x *Exec) freshVal(s *State, T types.Type, prefix string) *Val {
	if tg := x.tagForType(T); tg != nil {
		return &Val{T: T, Tag: tg}
	}
	switch u := T.Underlying().(type) {
	case *types.Tuple:
		v := &Val{T: T}
		for i := 0; i < u.Len(); i++ {
			v.Tup = append(v.Tup, x.freshVal(s, u.At(i).Type(), fmt.Sprintf("%s_%d", prefix, i)))
		}
		return v
	case *types.Pointer:
		srt := x.c.sortOf(T)
		if srt == "Int" {
			t := x.fresh(s, prefix, "Int")
			id := x.newObj(s, u.Elem(), prefix, t, false)
			return &Val{T: T, Ptr: &Ptr{Obj: id, Nil: eq(t, "0")}}
		}
		// a pointer to a fresh object with a symbolic nil flag
		nilc := x.fresh(s, prefix+"_isnil", "Bool")
		ct := x.fresh(s, prefix, x.c.sortOf(u.Elem()))
		id := x.newObj(s, u.Elem(), prefix, ct, false)
		return &Val{T: T, Ptr: &Ptr{Obj: id, Nil: nilc}}
	case *types.Map:
		ct := x.fresh(s, prefix, x.mapSort(u))
		id := x.newObj(s, T, prefix, ct, false)
		return &Val{T: T, Ptr: &Ptr{Obj: id, Nil: "false"}}
	}
	t := x.fresh(s, prefix, x.c.sortOf(T))
	x.assumeInv(s, T, t)
	return &Val{T: T, S: t}
}

// ---------------------------------------------------------------------------
// Loads and stores through Ptr
// ---------------------------------------------------------------------------

func elemTypeAt(T types.Type, st Step) types.Type {
	switch st.Kind {
	case stField:
		if u, ok := T.Underlying().(*types.Struct); ok {
			return u.Field(st.Field).Type()
		}
	case stIndex:
		switch u := T.Underlying().(type) {
		case *types.Slice:
			return u.Elem()
		case *types.Array:
			return u.Elem()
		case *types.Basic:
			return types.Typ[types.Uint8]
		}
	case stDeref:
		if u, ok := T.Underlying().(*types.Pointer); ok {
			return u.Elem()
		}
	}
	return nil
}

func (x *Exec) stepTerm(T types.Type, t string, st Step) (string, types.Type) {
	nt := elemTypeAt(T, st)
	if nt == nil {
		return "", nil
	}
	srt := x.c.sortOf(T)
	switch st.Kind {
	case stField:
		si := x.c.structInfo(T)
		if si == nil {
			// opaque struct: uninterpreted field function
			fn := fmt.Sprintf("opq.%s.%s", sanitize(namedPath(T)), T.Underlying().(*types.Struct).Field(st.Field).Name())
			x.c.P.declare(fn, fmt.Sprintf("(declare-fun %s (Int) %s)", fn, x.c.sortOf(nt)))
			return sx(fn, t), nt
		}
		return sx(si.Fields[st.Field].Acc, t), nt
	case stIndex:
		if srt == "Bytes" {
			return sx("bat", t, st.Idx), nt
		}
		return sx("select", sx("arr_"+srt, t), add(sx("off_"+srt, t), st.Idx)), nt
	case stDeref:
		if srt == "Int" {
			return t, nt
		}
		return sx("val_"+srt, t), nt
	}
	return "", nil
}

func (x *Exec) pathType(p *Ptr) types.Type {
	T := x.objMeta[p.Obj].T
	for _, st := range p.Path {
		T = elemTypeAt(T, st)
		if T == nil {
			return nil
		}
	}
	return T
}

func (x *Exec) loadTerm(s *State, p *Ptr) string {
	T := x.objMeta[p.Obj].T
	t, ok := s.objs[p.Obj]
	if !ok {
		t = x.tmp[p.Obj]
	}
	for _, st := range p.Path {
		t, T = x.stepTerm(T, t, st)
		if T == nil {
			x.fail("load through ill-typed path")
			return "0"
		}
	}
	return t
}

// load reads the location p (of type T) and wraps the result.
func (x *Exec) load(s *State, p *Ptr) *Val {
	T := x.pathType(p)
	if T == nil {
		x.fail("load through ill-typed path")
		return &Val{T: types.Typ[types.Int], S: "0"}
	}
	if tg := x.tagForType(T); tg != nil {
		return &Val{T: T, Tag: tg}
	}
	switch T.Underlying().(type) {
	case *types.Pointer:
		srt := x.c.sortOf(T)
		t := x.loadTerm(s, p)
		if srt == "Int" {
			np := p.ext(Step{Kind: stDeref})
			np.Nil = eq(t, "0")
			return &Val{T: T, Ptr: np}
		}
		np := p.ext(Step{Kind: stDeref})
		np.Nil = fmt.Sprintf("((_ is none_%s) %s)", srt, t)
		return &Val{T: T, Ptr: np}
	case *types.Map:
		return &Val{T: T, Ptr: &Ptr{Obj: p.Obj, Path: p.Path, Nil: "false"}}
	}
	t := x.loadTerm(s, p)
	x.assumeInv(s, T, t)
	v := &Val{T: T, S: t}
	if _, ok := T.Underlying().(*types.Slice); ok && x.c.sortOf(T) != "Bytes" {
		v.Origin = p
	}
	return v
}

func (x *Exec) updTerm(s *State, T types.Type, t string, path []Step, v string) string {
	if len(path) == 0 {
		return v
	}
	st := path[0]
	inner, nt := x.stepTerm(T, t, st)
	if nt == nil {
		x.fail("store through ill-typed path")
		return t
	}
	srt := x.c.sortOf(T)
	nv := x.updTerm(s, nt, inner, path[1:], v)
	switch st.Kind {
	case stField:
		si := x.c.structInfo(T)
		if si == nil {
			x.c.note("store into opaque struct " + namedPath(T) + " ignored")
			return t
		}
		args := make([]string, len(si.Fields))
		for i, f := range si.Fields {
			if i == st.Field {
				args[i] = nv
			} else {
				args[i] = sx(f.Acc, t)
			}
		}
		return sx(si.Ctor, args...)
	case stIndex:
		if srt == "Bytes" {
			x.c.note("byte store into buffer modelled by bsplice")
			return sx("bsplice", t, st.Idx, sx("bbyte", nv))
		}
		return sx("mk_"+srt, sx("store", sx("arr_"+srt, t), add(sx("off_"+srt, t), st.Idx), nv), sx("off_"+srt, t), sx("len_"+srt, t))
	case stDeref:
		if srt == "Int" {
			return t
		}
		return sx("some_"+srt, nv)
	}
	return t
}

func (x *Exec) store(s *State, p *Ptr, v *Val) {
	s.ver++
	m := x.objMeta[p.Obj]
	if m.Name == "tmp" && len(p.Path) > 0 {
		x.c.note("store through a copied pointer (aliasing not tracked)")
		x.fail("store through a pointer obtained by value copy in %s", x.fn.Name())
	}
	x.recordWrite(p)
	vt := x.termOf(s, v)
	if vtT := x.pathType(p); vtT != nil {
		if _, isMap := vtT.Underlying().(*types.Map); isMap && v.Ptr != nil && len(p.Path) == 0 {
			// map variable assignment: content copy (maps here are function-local)
		}
	}
	old := s.objs[p.Obj]
	if len(p.Path) > 0 && strings.HasPrefix(old, "(") {
		old = x.name(s, "o"+fmt.Sprint(p.Obj), m.Sort, old)
	}
	nt := x.updTerm(s, m.T, old, p.Path, vt)
	s.objs[p.Obj] = x.name(s, "o"+fmt.Sprint(p.Obj), m.Sort, nt)
}

// ---------------------------------------------------------------------------
// Obligations
// ---------------------------------------------------------------------------

func (x *Exec) oblige(s *State, kind, label, goal string, props []string) {
	if goal == "true" {
		// still record it (counts as trivially discharged on this path)
	}
	if props == nil && x.con != nil {
		props = x.con.Props
	}
	name := fmt.Sprintf("%s/%s.%s", shortFuncName(x.fn), kind, label)
	o := &Oblig{Name: name, Kind: kind, Label: label, Goal: goal, NPC: len(s.pc), NDecl: len(s.decls), Props: props, Trace: strings.Join(s.trace, " > ")}
	o.pcSnap(s)
	x.obligs = append(x.obligs, o)
}

type obligData struct {
	pc    []string
	decls []string
}

var obligStore = map[*Oblig]*obligData{}

func (o *Oblig) pcSnap(s *State) {
	obligStore[o] = &obligData{pc: s.pc[:len(s.pc):len(s.pc)], decls: s.decls[:len(s.decls):len(s.decls)]}
}

func shortFuncName(fn *ssa.Function) string {
	k := funcKey(fn)
	k = strings.TrimPrefix(k, modPath+"/")
	k = strings.TrimPrefix(k, "x/")
	return k
}

// panicIf: cond is the condition under which the instruction panics.
func (x *Exec) panicIf(s *State, cond, what string) {
	if cond == "false" {
		return
	}
	if x.con != nil && x.con.NoPanic {
		x.counter["nopanic."+what]++
		x.oblige(s, "nopanic", what, not(cond), nil)
	}
	s.assumeBranch(not(cond))
}

// ---------------------------------------------------------------------------
// Loop discovery
// ---------------------------------------------------------------------------

func (x *Exec) loopsOf(fn *ssa.Function) map[*ssa.BasicBlock]*LoopInfo {
	if l, ok := x.loops[fn]; ok {
		return l
	}
	res := map[*ssa.BasicBlock]*LoopInfo{}
	for _, b := range fn.Blocks {
		for _, succ := range b.Succs {
			if succ.Dominates(b) {
				li := res[succ]
				if li == nil {
					li = &LoopInfo{Head: succ, Blocks: map[*ssa.BasicBlock]bool{succ: true}}
					res[succ] = li
				}
				// natural loop: all blocks that reach b without passing succ
				var stack []*ssa.BasicBlock
				if !li.Blocks[b] {
					li.Blocks[b] = true
					stack = append(stack, b)
				}
				for len(stack) > 0 {
					n := stack[len(stack)-1]
					stack = stack[:len(stack)-1]
					for _, p := range n.Preds {
						if !li.Blocks[p] {
							li.Blocks[p] = true
							stack = append(stack, p)
						}
					}
				}
			}
		}
	}
	// ordinal by source order: smallest source position of any instruction of the loop
	var heads []*ssa.BasicBlock
	minPos := map[*ssa.BasicBlock]token.Pos{}
	for h, li := range res {
		heads = append(heads, h)
		best := token.NoPos
		for b := range li.Blocks {
			if p := blockPos(b); p != token.NoPos && (best == token.NoPos || p < best) {
				best = p
			}
		}
		minPos[h] = best
	}
	sort.Slice(heads, func(i, j int) bool {
		pi, pj := minPos[heads[i]], minPos[heads[j]]
		if pi != pj {
			return pi < pj
		}
		return heads[i].Index < heads[j].Index
	})
	for i, h := range heads {
		res[h].Ord = i
	}
	x.loops[fn] = res
	return res
}

func blockPos(b *ssa.BasicBlock) token.Pos {
	// position of the loop: smallest valid position among the header's instructions
	// and its comparison; for range loops the header holds the index phi.
	best := token.NoPos
	for _, in := range b.Instrs {
		if _, isPhi := in.(*ssa.Phi); isPhi {
			continue // a phi carries the position of the variable's declaration
		}
		p := in.Pos()
		if d, ok := in.(*ssa.DebugRef); ok {
			continue
			p = d.Expr.Pos()
		}
		if p != token.NoPos && (best == token.NoPos || p < best) {
			best = p
		}
	}
	if best == token.NoPos {
		for _, s := range b.Succs {
			for _, in := range s.Instrs {
				if p := in.Pos(); p != token.NoPos && (best == token.NoPos || p < best) {
					best = p
				}
			}
		}
	}
	return best
}

// ---------------------------------------------------------------------------
// Running a function
// ---------------------------------------------------------------------------

func (x *Exec) val(s *State, env map[ssa.Value]*Val, v ssa.Value) *Val {
	switch c := v.(type) {
	case *ssa.Const:
		return x.constVal(s, c)
	case *ssa.Function:
		return &Val{T: c.Type(), Fn: c}
	case *ssa.Global:
		return &Val{T: c.Type(), S: "global:" + c.String()}
	case *ssa.Builtin:
		return &Val{T: c.Type(), S: "builtin:" + c.Name()}
	}
	if r, ok := env[v]; ok {
		return r
	}
	x.fail("use of undefined SSA value %s (%T) in %s", v.Name(), v, x.fn.Name())
	return &Val{T: v.Type(), S: "0"}
}

func (x *Exec) constVal(s *State, c *ssa.Const) *Val {
	T := c.Type()
	if c.Value == nil {
		// zero value / nil
		switch T.Underlying().(type) {
		case *types.Pointer:
			return &Val{T: T, Ptr: &Ptr{Obj: 0, Nil: "true"}}
		case *types.Map:
			id := x.newObj(s, T, "nilmap", x.zeroOf(T), true)
			return &Val{T: T, Ptr: &Ptr{Obj: id, Nil: "true"}}
		case *types.Signature:
			return &Val{T: T, S: "0"}
		}
		if tg := x.tagForType(T); tg != nil {
			return &Val{T: T, Tag: tg}
		}
		return &Val{T: T, S: x.zeroOf(T)}
	}
	switch c.Value.Kind() {
	case constant.Bool:
		if constant.BoolVal(c.Value) {
			return &Val{T: T, S: "true"}
		}
		return &Val{T: T, S: "false"}
	case constant.Int:
		if b, ok := T.Underlying().(*types.Basic); ok && b.Info()&types.IsFloat != 0 {
			return &Val{T: T, S: fpLit(c.Value)}
		}
		str := c.Value.ExactString()
		if strings.HasPrefix(str, "-") {
			str = "(- " + str[1:] + ")"
		}
		return &Val{T: T, S: str}
	case constant.Float:
		if b, ok := T.Underlying().(*types.Basic); ok && b.Info()&types.IsInteger != 0 {
			// integer-valued constant such as 1e4
			if iv := constant.ToInt(c.Value); iv.Kind() == constant.Int {
				return &Val{T: T, S: iv.ExactString()}
			}
		}
		return &Val{T: T, S: fpLit(c.Value)}
	case constant.String:
		return &Val{T: T, S: x.c.strLit(constant.StringVal(c.Value))}
	}
	x.fail("unsupported constant %v", c)
	return &Val{T: T, S: "0"}
}

func fpLit(v constant.Value) string {
	f, _ := constant.Float64Val(v)
	return fmt.Sprintf("((_ to_fp 11 53) RNE %s)", realLit(f))
}

func realLit(f float64) string {
	if f < 0 {
		return fmt.Sprintf("(- %s)", realLit(-f))
	}
	if f == float64(int64(f)) {
		return fmt.Sprintf("%d.0", int64(f))
	}
	return fmt.Sprintf("%.17g", f)
}

// run executes fr.fn from block b (entered from prev), instruction index i, on state s with environment env.
func (x *Exec) runBlock(s *State, env map[ssa.Value]*Val, fr *Frame, b, prev *ssa.BasicBlock) {
	if x.tooMany || s.dead {
		return
	}
	if x.disc != nil && b.Parent() == x.disc.loop.Head.Parent() && !x.disc.loop.Blocks[b] {
		return // write discovery stops where the loop is left
	}
	loops := x.loopsOf(fr.fn)
	if li, ok := loops[b]; ok {
		if s.active[b] != nil {
			// back edge: evaluate phis first (the values flowing around), then check the invariant
			x.evalPhis(s, env, b, prev)
			x.loopArrive(s, env, fr, li, false)
			x.paths++
			return
		}
		if !fr.isTop {
			x.fail("loop inside inlined function %s", fr.fn.Name())
			return
		}
		x.evalPhis(s, env, b, prev)
		x.loopArrive(s, env, fr, li, true)
		if s.dead {
			return
		}
		x.instrs(s, env, fr, b, x.firstNonPhi(b))
		return
	}
	x.evalPhis(s, env, b, prev)
	x.instrs(s, env, fr, b, x.firstNonPhi(b))
}

func (x *Exec) firstNonPhi(b *ssa.BasicBlock) int {
	for i, in := range b.Instrs {
		if _, ok := in.(*ssa.Phi); !ok {
			return i
		}
	}
	return len(b.Instrs)
}

func (x *Exec) evalPhis(s *State, env map[ssa.Value]*Val, b, prev *ssa.BasicBlock) {
	if prev == nil {
		return
	}
	idx := -1
	for i, p := range b.Preds {
		if p == prev {
			idx = i
			break
		}
	}
	if idx < 0 {
		return
	}
	// parallel assignment
	var phis []*ssa.Phi
	var vals []*Val
	for _, in := range b.Instrs {
		ph, ok := in.(*ssa.Phi)
		if !ok {
			break
		}
		phis = append(phis, ph)
		vals = append(vals, x.val(s, env, ph.Edges[idx]))
	}
	for i, ph := range phis {
		v := vals[i]
		if v.T != ph.Type() {
			nv := *v
			nv.T = ph.Type()
			v = &nv
		}
		env[ph] = v
	}
}

func cloneEnv(env map[ssa.Value]*Val) map[ssa.Value]*Val {
	n := make(map[ssa.Value]*Val, len(env)+16)
	for k, v := range env {
		n[k] = v
	}
	return n
}

func (x *Exec) instrs(s *State, env map[ssa.Value]*Val, fr *Frame, b *ssa.BasicBlock, i int) {
	for ; i < len(b.Instrs); i++ {
		if x.tooMany || s.dead {
			return
		}
		in := b.Instrs[i]
		if fr.isTop {
			x.curEnv, x.curBlock = env, b
		}
		switch in := in.(type) {
		case *ssa.DebugRef:
			continue
		case *ssa.If:
			cv := x.val(s, env, in.Cond)
			c := cv.S
			pos := x.prog.SSA.Fset.Position(in.Cond.Pos())
			tb, fb := b.Succs[0], b.Succs[1]
			if c != "true" && c != "false" {
				if D := x.tryIfConvert(s, env, fr, b, c); D != nil {
					// the join block's phis are bound; continue after them
					x.instrs(s, env, fr, D, x.firstNonPhi(D))
					return
				}
			}
			ct, cf := c, not(c)
			okT, okF := ct != "false", cf != "false"
			// a condition already decided on this path (protobuf getters re-test the same nil-ness)
			for i := len(s.pc) - 1; i >= 0 && okT && okF; i-- {
				if !s.pcb[i] {
					continue
				}
				if s.pc[i] == ct {
					okF = false
				} else if s.pc[i] == cf {
					okT = false
				}
			}
			if okT && okF && x.pruner != nil {
				okT, okF = x.pruner.feasible2(x, s, ct, cf)
			}
			if okT && okF {
				s2 := s.clone()
				env2 := cloneEnv(env)
				s.assumeBranch(ct)
				s.trace = append(s.trace, fmt.Sprintf("%d:T", pos.Line))
				x.runBlock(s, env, fr, tb, b)
				s2.assumeBranch(cf)
				s2.trace = append(s2.trace, fmt.Sprintf("%d:F", pos.Line))
				x.runBlock(s2, env2, fr, fb, b)
			} else if okT {
				x.pruned++
				s.assumeBranch(ct)
				x.runBlock(s, env, fr, tb, b)
			} else if okF {
				x.pruned++
				s.assumeBranch(cf)
				x.runBlock(s, env, fr, fb, b)
			} else {
				x.pruned++
			}
			return
		case *ssa.Jump:
			x.runBlock(s, env, fr, b.Succs[0], b)
			return
		case *ssa.Return:
			var rs []*Val
			for _, r := range in.Results {
				rs = append(rs, x.val(s, env, r))
			}
			if fr.ret != nil {
				fr.ret(s, rs)
			} else {
				x.exit(s, env, rs)
			}
			return
		case *ssa.Panic:
			// a reachable explicit panic
			if fr.isTop && x.con != nil && len(x.con.Unreachable) > 0 && x.disc == nil {
				// `//@ unreachable panic <k> label`: the k-th explicit panic of the function (source order) must be
				// unreachable under the preconditions (acceptance clauses for functions that report rejection by panicking)
				if cl, ok := x.con.Unreachable[panicOrdinal(fr.fn, in)]; ok {
					var props []string
					if len(cl.Props) > 0 {
						props = cl.Props
					}
					x.oblige(s, "unreachable", cl.Label, "false", props)
				}
			}
			if fr.isTop && x.con != nil && x.con.NoPanic {
				x.oblige(s, "nopanic", "explicit_panic", "false", nil)
			} else if !fr.isTop && x.con != nil && x.con.NoPanic {
				x.oblige(s, "nopanic", "explicit_panic_in_"+fr.fn.Name(), "false", nil)
			}
			x.paths++
			return
		case *ssa.Call:
			cont := func(s2 *State, res *Val) {
				if res != nil {
					env[in] = res
				}
				x.instrs(s2, env, fr, b, i+1)
			}
			x.call(s, env, fr, in, &in.Call, cont)
			return
		case *ssa.Defer:
			fr.defers = append(fr.defers, in)
			continue
		case *ssa.RunDefers:
			for _, d := range fr.defers {
				if !x.deferOK(d) {
					x.fail("unsupported deferred call %s in %s", d.Call.String(), fr.fn.Name())
				}
			}
			continue
		case *ssa.Go:
			x.fail("go statement in %s", fr.fn.Name())
			return
		case *ssa.Store:
			x.doStore(s, env, in)
		case *ssa.MapUpdate:
			x.doMapUpdate(s, env, in)
		case *ssa.Send, *ssa.Select:
			x.fail("channel operation in %s", fr.fn.Name())
			return
		case ssa.Value:
			v := x.evalValue(s, env, fr, in)
			if v != nil {
				if v.S != "" && len(v.S) > 24 && strings.HasPrefix(v.S, "(") && v.Ptr == nil && v.SRef == nil && v.Tag == nil {
					nv := *v
					if nv.Origin != nil && nv.OriginTerm == "" {
						nv.OriginTerm = nv.S
					}
					nv.S = x.name(s, in.Name(), x.c.sortOf(v.T), v.S)
					v = &nv
				}
				env[in] = v
			}
		default:
			x.fail("unsupported instruction %T in %s", in, fr.fn.Name())
			return
		}
	}
}

func (x *Exec) deferOK(d *ssa.Defer) bool {
	name := ""
	if c := d.Call.StaticCallee(); c != nil {
		name = c.String()
	} else if d.Call.IsInvoke() {
		name = d.Call.Method.Name()
	} else {
		name = d.Call.Value.String()
	}
	for _, ok := range []string{"Close", "cancel", "Put", "Unlock", "RUnlock", "Done"} {
		if strings.HasSuffix(name, ok) || strings.Contains(name, "."+ok) {
			x.c.note("deferred " + ok + " treated as no-op")
			return true
		}
	}
	return false
}

func (x *Exec) doStore(s *State, env map[ssa.Value]*Val, in *ssa.Store) {
	a := x.val(s, env, in.Addr)
	v := x.val(s, env, in.Val)
	if a.Tag != nil {
		return // storing a keeper value into its local copy
	}
	if g, ok := in.Addr.(*ssa.Global); ok {
		x.fail("store to global %s", g.Name())
		return
	}
	if a.Ptr == nil {
		x.fail("store through non-pointer value %s in %s", in.Addr.Name(), x.fn.Name())
		return
	}
	x.panicIf(s, a.Ptr.Nil, "nil_store")
	// closures / functions stored in locals: keep Go-side in a side table
	if v.Clo != nil || v.Fn != nil || v.Tag != nil || v.Dyn != nil {
		x.sideStore(s, a.Ptr, v)
	}
	x.store(s, a.Ptr, v)
}

func pathKey(p *Ptr) string {
	var sb strings.Builder
	for _, st := range p.Path {
		fmt.Fprintf(&sb, "/%d:%d:%s", st.Kind, st.Field, st.Idx)
	}
	return sb.String()
}

func (x *Exec) sideStore(s *State, p *Ptr, v *Val) {
	k := fmt.Sprintf("side:%d%s", p.Obj, pathKey(p))
	if x.side == nil {
		x.side = map[string]*Val{}
	}
	x.side[k] = v
}

func (x *Exec) sideLoad(p *Ptr) *Val {
	if x.side == nil {
		return nil
	}
	return x.side[fmt.Sprintf("side:%d%s", p.Obj, pathKey(p))]
}

func (x *Exec) doMapUpdate(s *State, env map[ssa.Value]*Val, in *ssa.MapUpdate) {
	m := x.val(s, env, in.Map)
	k := x.val(s, env, in.Key)
	v := x.val(s, env, in.Value)
	if m.Ptr == nil {
		x.fail("map update on unknown map")
		return
	}
	x.panicIf(s, m.Ptr.Nil, "nil_map_write")
	mt := m.T.Underlying().(*types.Map)
	ms := x.mapSort(mt)
	cur := x.loadTerm(s, m.Ptr)
	kt, vt := x.termOf(s, k), x.termOf(s, v)
	nt := sx("mk_"+ms, sx("store", sx("dom_"+ms, cur), kt, "true"), sx("store", sx("val_"+ms, cur), kt, vt))
	x.storeTerm(s, m.Ptr, nt)
}

func (x *Exec) storeTerm(s *State, p *Ptr, term string) {
	s.ver++
	x.recordWrite(p)
	m := x.objMeta[p.Obj]
	old := s.objs[p.Obj]
	nt := x.updTerm(s, m.T, old, p.Path, term)
	s.objs[p.Obj] = x.name(s, "o"+fmt.Sprint(p.Obj), m.Sort, nt)
}

// panicOrdinal: index of an explicit panic instruction among the explicit panics of fn in source order
func panicOrdinal(fn *ssa.Function, p *ssa.Panic) int {
	var ps []*ssa.Panic
	for _, b := range fn.Blocks {
		for _, in := range b.Instrs {
			if q, ok := in.(*ssa.Panic); ok {
				ps = append(ps, q)
			}
		}
	}
	sort.SliceStable(ps, func(i, j int) bool { return ps[i].Pos() < ps[j].Pos() })
	for i, q := range ps {
		if q == p {
			return i
		}
	}
	return -1
}
