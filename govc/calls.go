package main

import (
	"fmt"
	"go/types"
	"strings"

	"golang.org/x/tools/go/ssa"
)

// stripGenerics removes [...] instantiation brackets from an SSA function name.
func stripGenerics(s string) string {
	var sb strings.Builder
	d := 0
	for i := 0; i < len(s); i++ {
		switch s[i] {
		case '[':
			// "[]" belongs to a slice type only inside brackets; at depth 0 a '[' directly after an identifier opens type args
			d++
		case ']':
			d--
		default:
			if d == 0 {
				sb.WriteByte(s[i])
			}
		}
	}
	return sb.String()
}

func (x *Exec) isRepoFn(fn *ssa.Function) bool {
	return fn != nil && fn.Pkg != nil && fn.Pkg.Pkg != nil && strings.HasPrefix(fn.Pkg.Pkg.Path(), modPath) && len(fn.Blocks) > 0
}

// call dispatches a call instruction; cont is invoked once per resulting path.
func (x *Exec) call(s *State, env map[ssa.Value]*Val, fr *Frame, site ssa.Instruction, cc *ssa.CallCommon, cont func(*State, *Val)) {
	var args []*Val
	for _, a := range cc.Args {
		args = append(args, x.val(s, env, a))
	}
	var resT types.Type
	if v, ok := site.(ssa.Value); ok {
		resT = v.Type()
	}
	if cc.IsInvoke() {
		recv := x.val(s, env, cc.Value)
		x.invoke(s, fr, recv, cc, args, resT, cont)
		return
	}
	if b, ok := cc.Value.(*ssa.Builtin); ok {
		cont(s, x.builtin(s, b, cc, args, resT))
		return
	}
	if fn := cc.StaticCallee(); fn != nil {
		if mc, ok := cc.Value.(*ssa.MakeClosure); ok {
			cv := x.val(s, env, mc)
			x.callFn(s, fr, fn, args, cv.Clo.Bindings, resT, cont)
			return
		}
		x.callFn(s, fr, fn, args, nil, resT, cont)
		return
	}
	fv := x.val(s, env, cc.Value)
	switch {
	case fv.Clo != nil:
		x.callFn(s, fr, fv.Clo.Fn, args, fv.Clo.Bindings, resT, cont)
	case fv.Fn != nil:
		x.callFn(s, fr, fv.Fn, args, nil, resT, cont)
	default:
		x.unknownCall(s, "dynamic call "+cc.Value.Name(), args, resT, cont)
	}
}

func (x *Exec) callFn(s *State, fr *Frame, fn *ssa.Function, args []*Val, bindings []*Val, resT types.Type, cont func(*State, *Val)) {
	name := stripGenerics(fn.String())
	if fn.Origin() != nil {
		name = stripGenerics(fn.Origin().String())
	}
	if x.summary(s, name, fn, args, resT, cont) {
		return
	}
	if x.isRepoFn(fn) {
		key := funcKey(fn)
		if con, ok := x.cs.ByKey[key]; ok && !con.Inline && fn != x.fn {
			x.applyContract(s, fn, con, args, resT, cont)
			return
		}
		if fr.depth >= 6 {
			x.fail("inlining depth exceeded at %s", fn.Name())
			x.unknownCall(s, name, args, resT, cont)
			return
		}
		if len(x.loopsOf(fn)) > 0 {
			x.c.note("call to " + shortFuncName(fn) + " (has loops, no contract) treated as unknown")
			x.unknownCall(s, name, args, resT, cont)
			return
		}
		if fn == x.fn || x.onStack(fr, fn) {
			x.unknownCall(s, name+" (recursive)", args, resT, cont)
			return
		}
		x.inline(s, fr, fn, args, bindings, resT, cont)
		return
	}
	x.unknownCall(s, name, args, resT, cont)
}

func (x *Exec) onStack(fr *Frame, fn *ssa.Function) bool {
	return x.stack[fn] > 0
}

func (x *Exec) inline(s *State, fr *Frame, fn *ssa.Function, args []*Val, bindings []*Val, resT types.Type, cont func(*State, *Val)) {
	env := map[ssa.Value]*Val{}
	for i, p := range fn.Params {
		if i < len(args) {
			v := args[i]
			env[p] = v
		}
	}
	for i, fv := range fn.FreeVars {
		if i < len(bindings) {
			env[fv] = bindings[i]
		}
	}
	x.stack[fn]++
	nf := &Frame{fn: fn, depth: fr.depth + 1}
	nf.ret = func(s2 *State, rs []*Val) {
		x.stack[fn]--
		var r *Val
		switch len(rs) {
		case 0:
			r = nil
		case 1:
			r = rs[0]
		default:
			r = &Val{T: resT, Tup: rs}
		}
		cont(s2, r)
		x.stack[fn]++
	}
	x.runBlock(s, env, nf, fn.Blocks[0], nil)
	x.stack[fn]--
}

// pureNames: dependency functions whose result is irrelevant to consensus state and that
// have no effect on the modelled heap (loggers, event constructors, formatting).
var pureIrrelevant = []string{
	"fmt.Sprintf", "fmt.Sprint", "fmt.Errorf", "errors.New", "encoding/hex.", "strconv.",
	"cosmossdk.io/log.", "(cosmossdk.io/log.Logger).",
	"github.com/cosmos/cosmos-sdk/types.NewEvent", "github.com/cosmos/cosmos-sdk/types.NewAttribute",
	"(*github.com/cosmos/cosmos-sdk/types.EventManager).", "(github.com/cosmos/cosmos-sdk/types.EventManagerI).",
	"(github.com/cosmos/cosmos-sdk/types.Event).", "(time.Duration).String", "(time.Time).String",
	"google.golang.org/grpc/status.Errorf", "github.com/cosmos/cosmos-sdk/telemetry.",
	"invoke cosmossdk.io/log.Logger.", "invoke github.com/cosmos/cosmos-sdk/types.EventManagerI.",
}

func (x *Exec) unknownCall(s *State, name string, args []*Val, resT types.Type, cont func(*State, *Val)) {
	for _, p := range pureIrrelevant {
		if strings.HasPrefix(name, p) {
			x.c.note("pure-and-irrelevant: " + p + "*")
			cont(s, x.freshResult(s, resT, name))
			return
		}
	}
	x.c.note("UNKNOWN call " + name + ": result unconstrained, pointer arguments havocked")
	x.unknown[name]++
	for _, a := range args {
		if a.Ptr != nil && a.Ptr.Obj != 0 {
			x.havocObj(s, a.Ptr.Obj)
		}
		if a.SRef != nil {
			x.havocObj(s, a.SRef.Obj)
		}
	}
	cont(s, x.freshResult(s, resT, name))
}

func (x *Exec) freshResult(s *State, resT types.Type, name string) *Val {
	if resT == nil {
		return nil
	}
	if t, ok := resT.(*types.Tuple); ok && t.Len() == 0 {
		return nil
	}
	pfx := name
	if i := strings.LastIndexAny(pfx, "./)"); i >= 0 && i+1 < len(pfx) {
		pfx = pfx[i+1:]
	}
	v := x.freshVal(s, resT, "r_"+pfx)
	// errors created by constructors are non-nil
	if strings.HasPrefix(name, "fmt.Errorf") || strings.HasPrefix(name, "errors.New") || strings.HasPrefix(name, "google.golang.org/grpc/status.Errorf") {
		s.assume(not(eq(v.S, "0")))
	}
	return v
}

func (x *Exec) havocObj(s *State, id int) {
	s.ver++
	m := x.objMeta[id]
	if m == nil {
		return
	}
	old := s.objs[id]
	n := x.fresh(s, "hv_o"+fmt.Sprint(id), m.Sort)
	if m.Sort == "Bytes" {
		s.assume(eq(sx("blen", n), sx("blen", old)))
	}
	s.objs[id] = n
	if x.disc != nil {
		x.disc.objs[id] = append(x.disc.objs[id], nil)
	}
}

// ---------------------------------------------------------------------------
// builtins
// ---------------------------------------------------------------------------

func (x *Exec) builtin(s *State, b *ssa.Builtin, cc *ssa.CallCommon, args []*Val, resT types.Type) *Val {
	switch b.Name() {
	case "len":
		v := args[0]
		if _, ok := v.T.Underlying().(*types.Map); ok {
			x.c.note("len(map) is unconstrained")
			r := x.fresh(s, "maplen", "Int")
			s.assume(sx(">=", r, "0"))
			return &Val{T: resT, S: r}
		}
		ln := x.sliceLen(s, v)
		if _, lit := isNumLit(ln); !lit {
			s.assume(and(sx(">=", ln, "0"), sx("<", ln, pow2(63)))) // a length held by the program is an int (A-mem)
		}
		return &Val{T: resT, S: ln}
	case "cap":
		// capacity is not modelled: any value >= len
		r := x.fresh(s, "cap", "Int")
		s.assume(sx(">=", r, x.sliceLen(s, args[0])))
		return &Val{T: resT, S: r}
	case "append":
		return x.appendOp(s, args, resT)
	case "copy":
		return x.copyOp(s, args, resT)
	case "delete":
		m, k := args[0], args[1]
		if m.Ptr == nil {
			x.fail("delete on unknown map")
			return nil
		}
		mt := m.T.Underlying().(*types.Map)
		ms := x.mapSort(mt)
		cur := x.loadTerm(s, m.Ptr)
		nt := sx("mk_"+ms, sx("store", sx("dom_"+ms, cur), x.termOf(s, k), "false"), sx("val_"+ms, cur))
		x.storeTerm(s, m.Ptr, nt)
		if x.disc != nil {
			x.disc.objs[m.Ptr.Obj] = append(x.disc.objs[m.Ptr.Obj], nil)
		}
		return nil
	case "clear":
		m := args[0]
		if m.Ptr == nil {
			x.fail("clear on unsupported value")
			return nil
		}
		if _, isMap := m.T.Underlying().(*types.Map); !isMap {
			x.fail("clear on a slice")
			return nil
		}
		x.storeTerm(s, m.Ptr, x.zeroOf(m.T))
		if x.disc != nil {
			x.disc.objs[m.Ptr.Obj] = append(x.disc.objs[m.Ptr.Obj], nil)
		}
		return nil
	case "min", "max":
		a, bb := args[0].S, args[1].S
		if b.Name() == "min" {
			return &Val{T: resT, S: ite(sx("<=", a, bb), a, bb)}
		}
		return &Val{T: resT, S: ite(sx(">=", a, bb), a, bb)}
	case "print", "println":
		return nil
	case "ssa:wrapnilchk":
		x.panicIf(s, x.nilCond(s, args[0]), "nil_method_value")
		return args[0]
	}
	x.fail("unsupported builtin %s", b.Name())
	return x.freshResult(s, resT, b.Name())
}

func (x *Exec) appendOp(s *State, args []*Val, resT types.Type) *Val {
	a, e := args[0], args[1]
	srt := x.c.sortOf(resT)
	if srt == "Bytes" {
		return &Val{T: resT, S: sx("bcat", x.termOf(s, a), x.termOf(s, e))}
	}
	at := x.termOf(s, a)
	at = x.name(s, "app_a", srt, at)
	alen := sx("len_"+srt, at)
	aoff := sx("off_"+srt, at)
	// elements appended: literal small count (varargs) -> chain of stores
	if e.SRef != nil {
		if k, ok := isNumLit(e.SRef.Len); ok && k <= 8 {
			arr := sx("arr_"+srt, at)
			eo := s.objs[e.SRef.Obj]
			esrt := x.objMeta[e.SRef.Obj].Sort
			for i := int64(0); i < k; i++ {
				el := sx("select", sx("arr_"+esrt, eo), add(add(sx("off_"+esrt, eo), e.SRef.Off), num(i)))
				arr = sx("store", arr, add(add(aoff, alen), num(i)), el)
			}
			res := sx("mk_"+srt, arr, aoff, add(alen, num(k)))
			return &Val{T: resT, S: x.name(s, "app", srt, res)}
		}
	}
	et := x.termOf(s, e)
	if x.c.sortOf(e.T) == "Bytes" {
		// append([]T, string...) only for bytes; handled above
		x.fail("append of bytes to non-byte slice")
	}
	et = x.name(s, "app_e", srt, et)
	elen := sx("len_"+srt, et)
	r := x.fresh(s, "app", srt)
	// r = a ++ e, described element-wise (fresh backing array, A-append)
	s.assume(and(eq(sx("off_"+srt, r), "0"), eq(sx("len_"+srt, r), add(alen, elen))))
	i := "i!a"
	s.assume(fmt.Sprintf("(forall ((%s Int)) (! (=> (and (<= 0 %s) (< %s %s)) (= (select (arr_%s %s) %s) (select (arr_%s %s) (+ %s %s)))) :pattern ((select (arr_%s %s) %s))))",
		i, i, i, alen, srt, r, i, srt, at, aoff, i, srt, r, i))
	s.assume(fmt.Sprintf("(forall ((%s Int)) (! (=> (and (<= 0 %s) (< %s %s)) (= (select (arr_%s %s) (+ %s %s)) (select (arr_%s %s) (+ (off_%s %s) %s)))) :pattern ((select (arr_%s %s) (+ (off_%s %s) %s)))))",
		i, i, i, elen, srt, r, alen, i, srt, et, srt, et, i, srt, et, srt, et, i))
	// the same fact indexed by the position in the result, so that a goal about r[k] finds it by matching
	j := "j!a"
	s.assume(fmt.Sprintf("(forall ((%s Int)) (! (=> (and (<= %s %s) (< %s (+ %s %s))) (= (select (arr_%s %s) %s) (select (arr_%s %s) (+ (off_%s %s) (- %s %s))))) :pattern ((select (arr_%s %s) %s))))",
		j, alen, j, j, alen, elen, srt, r, j, srt, et, srt, et, j, alen, srt, r, j))
	return &Val{T: resT, S: r}
}

func (x *Exec) copyOp(s *State, args []*Val, resT types.Type) *Val {
	dst, src := args[0], args[1]
	if x.c.sortOf(dst.T) != "Bytes" {
		x.fail("copy on non-byte slices")
		return x.freshResult(s, resT, "copy")
	}
	st := x.termOf(s, src)
	dl := x.sliceLen(s, dst)
	sl := sx("blen", st)
	n := ite(sx("<=", dl, sl), dl, sl)
	if dst.SRef == nil {
		// outside the subset unless nothing is copied: that becomes an obligation of its own
		x.c.note("copy into a byte slice that is not a local buffer: must be provably empty")
		if x.disc == nil {
			x.oblige(s, "subset", "copy_into_nonlocal_is_empty", eq(n, "0"), nil)
		}
		s.assume(eq(n, "0"))
		return &Val{T: resT, S: n}
	}
	part := st
	if dl != sl {
		part = ite(sx("<=", sl, dl), st, sx("bsub", st, "0", dl))
	}
	cur := s.objs[dst.SRef.Obj]
	nt := sx("bsplice", cur, dst.SRef.Off, part)
	s.objs[dst.SRef.Obj] = x.name(s, "buf", "Bytes", nt)
	if x.disc != nil {
		x.disc.objs[dst.SRef.Obj] = append(x.disc.objs[dst.SRef.Obj], nil)
	}
	return &Val{T: resT, S: n}
}

// ---------------------------------------------------------------------------
// interface method calls
// ---------------------------------------------------------------------------

func (x *Exec) invoke(s *State, fr *Frame, recv *Val, cc *ssa.CallCommon, args []*Val, resT types.Type, cont func(*State, *Val)) {
	mname := cc.Method.Name()
	if recv.Dyn != nil {
		if fn := x.methodOf(recv.Dyn.T, cc.Method); fn != nil {
			x.callFn(s, fr, fn, append([]*Val{recv.Dyn}, args...), nil, resT, cont)
			return
		}
	}
	if recv.Tag != nil {
		switch recv.Tag.Kind {
		case tagKeeper, tagKeeperPtr:
			// a neighbour keeper behind an interface: the bound implementation's method
			if fn := x.keeperMethod(recv.Tag.Module, mname); fn != nil {
				x.callFn(s, fr, fn, append([]*Val{{T: fn.Params[0].Type(), Tag: &Tag{Kind: tagKeeper, Module: recv.Tag.Module}}}, args...), nil, resT, cont)
				return
			}
		case tagCtx:
			if x.summary(s, "ctx."+mname, nil, append([]*Val{recv}, args...), resT, cont) {
				return
			}
		}
	}
	it := namedPath(cc.Value.Type())
	if isErrorType(cc.Value.Type()) && mname == "Error" {
		cont(s, x.freshResult(s, resT, "Error"))
		return
	}
	if x.summary(s, "invoke:"+it+"."+mname, nil, append([]*Val{recv}, args...), resT, cont) {
		return
	}
	if x.cs.PureIfc[it] || x.cs.PureIfc[strings.TrimPrefix(it, modPath+"/")] {
		cont(s, x.pureIfaceCall(s, it, mname, recv, args, resT))
		return
	}
	x.unknownCall(s, "invoke "+it+"."+mname, append([]*Val{recv}, args...), resT, cont)
}

// pureIfaceCall models a getter on an opaque interface value as an uninterpreted function of the value.
func (x *Exec) pureIfaceCall(s *State, it, mname string, recv *Val, args []*Val, resT types.Type) *Val {
	fn := "ifc." + sanitize(strings.TrimPrefix(it, modPath+"/")) + "." + mname
	rs := x.c.sortOf(resT)
	var as []string
	sig := "Int"
	as = append(as, recv.S)
	for _, a := range args {
		as = append(as, x.termOf(s, a))
		sig += " " + x.c.sortOf(a.T)
	}
	x.c.P.declare(fn, fmt.Sprintf("(declare-fun %s (%s) %s)", fn, sig, rs))
	t := sx(fn, as...)
	x.assumeInv(s, resT, t)
	return x.valOf(s, resT, t)
}

func (x *Exec) methodOf(T types.Type, m *types.Func) *ssa.Function {
	ms := x.prog.SSA.MethodSets.MethodSet(T)
	sel := ms.Lookup(m.Pkg(), m.Name())
	if sel == nil {
		return nil
	}
	return x.prog.SSA.MethodValue(sel)
}

func (x *Exec) keeperMethod(module, name string) *ssa.Function {
	key := fmt.Sprintf("%s/x/%s/keeper.(Keeper).%s", modPath, module, name)
	if fn, ok := x.prog.Funcs[key]; ok {
		return fn
	}
	key = fmt.Sprintf("%s/x/%s/keeper.(*Keeper).%s", modPath, module, name)
	return x.prog.Funcs[key]
}
