package main

import (
	"fmt"
	"go/types"

	"golang.org/x/tools/go/ssa"
)

// globalConst models package-level maps that are initialised in the package init with constant keys:
// the key set is exact (the map is assumed not to be modified afterwards), the values are unconstrained.
func (x *Exec) globalConst(s *State, g *ssa.Global, T types.Type) (*Val, bool) {
	if g.Pkg == nil {
		return nil, false
	}
	// package-level values initialised by a constructor applied to constants (e.g. PowerReduction = NewIntFromUint64(1e18))
	if ifn := g.Pkg.Func("init"); ifn != nil {
		for _, b := range ifn.Blocks {
			for _, in := range b.Instrs {
				st, ok := in.(*ssa.Store)
				if !ok || st.Addr != g {
					continue
				}
				if call, ok := st.Val.(*ssa.Call); ok && call.Call.StaticCallee() != nil {
					switch call.Call.StaticCallee().String() {
					case "cosmossdk.io/math.NewIntFromUint64", "cosmossdk.io/math.NewInt":
						if c, ok := call.Call.Args[0].(*ssa.Const); ok {
							x.c.note("global " + g.String() + " = constant from its initialiser (assumed immutable)")
							return x.valOf(s, T, x.constVal(s, c).S), true
						}
					}
				}
			}
		}
	}
	mt, ok := T.Underlying().(*types.Map)
	if !ok {
		return nil, false
	}
	initFn := g.Pkg.Func("init")
	if initFn == nil {
		return nil, false
	}
	var mk *ssa.MakeMap
	for _, b := range initFn.Blocks {
		for _, in := range b.Instrs {
			if st, ok := in.(*ssa.Store); ok && st.Addr == g {
				if m, ok := st.Val.(*ssa.MakeMap); ok {
					mk = m
				}
			}
		}
	}
	if mk == nil {
		return nil, false
	}
	var keys []string
	for _, ref := range *mk.Referrers() {
		switch r := ref.(type) {
		case *ssa.MapUpdate:
			c, ok := r.Key.(*ssa.Const)
			if !ok {
				return nil, false
			}
			keys = append(keys, x.constVal(s, c).S)
		case *ssa.Store, *ssa.DebugRef:
		default:
			return nil, false
		}
	}
	ms := x.mapSort(mt)
	name := "g." + sanitize(g.Pkg.Pkg.Path()+"."+g.Name())
	x.c.P.declare(name, fmt.Sprintf("(declare-const %s %s)", name, ms))
	ks := x.c.sortOf(mt.Key())
	var in []string
	for _, k := range keys {
		in = append(in, eq("k", k))
	}
	ax := fmt.Sprintf("(assert (forall ((k %s)) (! (= (select (dom_%s %s) k) %s) :pattern ((select (dom_%s %s) k)))))", ks, ms, name, or(in...), ms, name)
	// the stored pointers are non-nil
	if _, isPtr := mt.Elem().Underlying().(*types.Pointer); isPtr && x.c.sortOf(mt.Elem()) == "Int" {
		ax += fmt.Sprintf("\n(assert (forall ((k %s)) (! (=> (select (dom_%s %s) k) (not (= (select (val_%s %s) k) 0))) :pattern ((select (val_%s %s) k)))))", ks, ms, name, ms, name, ms, name)
	}
	x.c.P.axiom("global_"+name, []string{name}, ax)
	x.c.note("global map " + g.String() + ": key set taken from the package initialiser, assumed immutable")
	id := x.newObj(s, T, g.Name(), name, false)
	return &Val{T: T, Ptr: &Ptr{Obj: id, Nil: "false"}}, true
}

// Range over a Go map (A-maprange): the iteration is abstracted to "any sequence of keys that were present when the
// range statement started": Next yields an arbitrary ok, and when ok an arbitrary key of the snapshot with the value the
// snapshot holds for it. This over-approximates every iteration order and every effect of deleting entries during the
// loop; it does NOT cover entries inserted into the ranged map by the loop body (Go may or may not yield those), which
// is recorded as an assumption wherever this summary fires.
var rangeSnaps = map[*ssa.Range]string{}

func (x *Exec) rangeInit(s *State, env map[ssa.Value]*Val, in *ssa.Range) *Val {
	mt, ok := in.X.Type().Underlying().(*types.Map)
	if !ok {
		x.fail("range over string not supported yet in %s", x.fn.Name())
		return &Val{T: in.Type(), S: "0"}
	}
	mv := x.val(s, env, in.X)
	if mv.Ptr == nil {
		x.fail("range over a map value without object in %s", x.fn.Name())
		return &Val{T: in.Type(), S: "0"}
	}
	ms := x.mapSort(mt)
	snap := x.name(s, "rangesnap", ms, x.loadTerm(s, mv.Ptr))
	rangeSnaps[in] = snap
	x.c.note("A-maprange: range over a Go map yields an arbitrary sequence of the keys present at its start (body must not insert into the ranged map)")
	return &Val{T: in.Type(), S: snap}
}

func (x *Exec) rangeNext(s *State, env map[ssa.Value]*Val, in *ssa.Next) *Val {
	rng, ok := in.Iter.(*ssa.Range)
	if !ok || in.IsString {
		x.fail("range over string not supported yet in %s", x.fn.Name())
		return x.freshVal(s, in.Type(), "next")
	}
	mt := rng.X.Type().Underlying().(*types.Map)
	ms := x.mapSort(mt)
	snap, have := rangeSnaps[rng]
	if !have {
		// the loop head is reached with a havocked state: the snapshot name is a constant declared at rangeInit
		x.fail("map range without snapshot in %s", x.fn.Name())
		return x.freshVal(s, in.Type(), "next")
	}
	okT := x.fresh(s, "range_ok", "Bool")
	kT := x.fresh(s, "range_key", x.c.sortOf(mt.Key()))
	x.assumeInv(s, mt.Key(), kT)
	s.assume(implies(okT, sx("select", sx("dom_"+ms, snap), kT)))
	vT := sx("select", sx("val_"+ms, snap), kT)
	tup := in.Type().(*types.Tuple)
	return &Val{T: in.Type(), Tup: []*Val{{T: tup.At(0).Type(), S: okT}, x.valOf(s, mt.Key(), kT), x.valOf(s, mt.Elem(), vT)}}
}
