package main

import (
	"go/types"

	"golang.org/x/tools/go/ssa"
)

func (x *Exec) globalConst(s *State, g *ssa.Global, T types.Type) (*Val, bool) {
	return nil, false
}

func (x *Exec) rangeInit(s *State, env map[ssa.Value]*Val, in *ssa.Range) *Val {
	x.fail("range over map/string not supported yet in %s", x.fn.Name())
	return &Val{T: in.Type(), S: "0"}
}

func (x *Exec) rangeNext(s *State, env map[ssa.Value]*Val, in *ssa.Next) *Val {
	x.fail("range over map/string not supported yet in %s", x.fn.Name())
	return x.freshVal(s, in.Type(), "next")
}
