package main

import (
	"encoding/json"
	"fmt"
	"go/ast"
	"go/parser"
	"go/printer"
	"go/token"
	"go/types"
	"os"
	"os/exec"
	"path/filepath"
	"regexp"
	"strings"
	"time"

	"golang.org/x/tools/go/ssa"
)

// ---------------------------------------------------------------------------
// Counterexample search and replay on the real code.
//
// 1. candidate inputs: the solver's model of the failing instance; when the
//    full query gives none (quantified axioms, recursive spec functions), a
//    relaxed query (axioms dropped, recursive functions unrolled) is solved —
//    its model may be spurious, which is harmless: only a replay that fails on
//    the real code is reported as a failing input.
// 2. replay: a generated in-package test calls the real function on the
//    candidate and evaluates the violated clause (the clause is Go syntax and
//    is compiled by the Go compiler against the real types; spec functions
//    have Go twins in /verif/replay/twins).
// ---------------------------------------------------------------------------

var defRecRe = regexp.MustCompile(`^\(define-fun-rec\s+([^\s()]+)\s+\(((?:\([^()]+\)\s*)*)\)\s+([A-Za-z0-9_]+)\s`)

// relaxQuery drops quantified axioms and unrolls recursive definitions k times.
func relaxQuery(q string, k int) string {
	var out []string
	for _, l := range strings.Split(q, "\n") {
		t := strings.TrimSpace(l)
		switch {
		case strings.HasPrefix(t, "(assert (forall"):
			continue
		case strings.HasPrefix(t, "(define-fun-rec"):
			m := defRecRe.FindStringSubmatch(t)
			if m == nil {
				continue
			}
			name, params, sort := m[1], m[2], m[3]
			var sorts []string
			for _, pm := range regexp.MustCompile(`\(([^\s()]+)\s+([^()]+)\)`).FindAllStringSubmatch(params, -1) {
				sorts = append(sorts, strings.TrimSpace(pm[2]))
			}
			out = append(out, fmt.Sprintf("(declare-fun %s!0 (%s) %s)", name, strings.Join(sorts, " "), sort))
			body := strings.Replace(t, "define-fun-rec", "define-fun", 1)
			for j := 1; j <= k; j++ {
				nm := fmt.Sprintf("%s!%d", name, j)
				if j == k {
					nm = name
				}
				b := replaceSym(body, name, fmt.Sprintf("%s!%d", name, j-1))
				// the defined name itself (first occurrence after define-fun) must be nm
				b = strings.Replace(b, fmt.Sprintf("(define-fun %s!%d ", name, j-1), fmt.Sprintf("(define-fun %s ", nm), 1)
				out = append(out, b)
			}
			continue
		case t == "(get-model)":
			continue
		}
		out = append(out, l)
	}
	return strings.Join(out, "\n")
}

func replaceSym(text, sym, repl string) string {
	var sb strings.Builder
	i := 0
	for {
		j := strings.Index(text[i:], sym)
		if j < 0 {
			sb.WriteString(text[i:])
			return sb.String()
		}
		k := i + j
		e := k + len(sym)
		okL := k == 0 || strings.ContainsRune("( )\n", rune(text[k-1]))
		okR := e >= len(text) || strings.ContainsRune("( )\n", rune(text[e]))
		sb.WriteString(text[i:k])
		if okL && okR {
			sb.WriteString(repl)
		} else {
			sb.WriteString(sym)
		}
		i = e
	}
}

// ---- s-expression parsing of (get-value ...) answers -------------------------

type sexp struct {
	atom string
	list []*sexp
}

func (s *sexp) String() string {
	if s.list == nil {
		return s.atom
	}
	var xs []string
	for _, e := range s.list {
		xs = append(xs, e.String())
	}
	return "(" + strings.Join(xs, " ") + ")"
}

func parseSexps(text string) []*sexp {
	var stack [][]*sexp
	var cur []*sexp
	i := 0
	for i < len(text) {
		c := text[i]
		switch {
		case c == '(':
			stack = append(stack, cur)
			cur = nil
			i++
		case c == ')':
			n := &sexp{list: cur}
			if n.list == nil {
				n.list = []*sexp{}
			}
			if len(stack) == 0 {
				return cur
			}
			cur = append(stack[len(stack)-1], n)
			stack = stack[:len(stack)-1]
			i++
		case c == ' ' || c == '\n' || c == '\t' || c == '\r':
			i++
		case c == '|':
			j := strings.IndexByte(text[i+1:], '|')
			if j < 0 {
				j = len(text) - i - 1
			}
			cur = append(cur, &sexp{atom: text[i+1 : i+1+j]})
			i += j + 2
		case c == '"':
			j := i + 1
			for j < len(text) && text[j] != '"' {
				j++
			}
			cur = append(cur, &sexp{atom: text[i : j+1]})
			i = j + 1
		default:
			j := i
			for j < len(text) && !strings.ContainsRune("() \n\t\r", rune(text[j])) {
				j++
			}
			cur = append(cur, &sexp{atom: text[i:j]})
			i = j
		}
	}
	return cur
}

func sexpInt(s *sexp) (string, bool) {
	if s.list == nil {
		if _, ok := isNumLit(s.atom); ok {
			return s.atom, true
		}
		if regexp.MustCompile(`^[0-9]+$`).MatchString(s.atom) {
			return s.atom, true
		}
		return "", false
	}
	if len(s.list) == 2 && s.list[0].atom == "-" {
		if v, ok := sexpInt(s.list[1]); ok {
			return "-" + v, true
		}
	}
	return "", false
}

// ---- candidate extraction ---------------------------------------------------

type valueQuery struct {
	term string
}

type candidate struct {
	Imports map[string]string `json:"imports,omitempty"` // path -> name used in the literals
	Args    []string          `json:"args"`              // Go literals, one per parameter
	Values  map[string]string `json:"values"`            // raw solver values
	Source  string            `json:"source"`            // full-model | relaxed-model
}

// goLiteral builds a Go literal for a value of type T whose SMT term is t, looking values up with get(term).
func (x *Exec) goLiteral(T types.Type, t string, get func(string) *sexp, q types.Qualifier, depth int) (string, bool) {
	if depth > 6 {
		return "", false
	}
	tn := types.TypeString(T, q)
	switch namedPath(T) {
	case "cosmossdk.io/math.Int", "cosmossdk.io/math.LegacyDec":
		v := get(t)
		if v == nil {
			return "", false
		}
		iv, ok := sexpInt(v)
		if !ok {
			return "", false
		}
		mq := q(T.(*types.Named).Obj().Pkg())
		if namedPath(T) == "cosmossdk.io/math.Int" {
			return fmt.Sprintf("%s.NewIntFromBigInt(vp_big(%q))", mq, iv), true
		}
		return fmt.Sprintf("%s.LegacyNewDecFromBigIntWithPrec(vp_big(%q), 18)", mq, iv), true
	case "time.Time":
		v := get(t)
		if v == nil {
			return "", false
		}
		iv, ok := sexpInt(v)
		return fmt.Sprintf("%s.Unix(0, %s)", q(T.(*types.Named).Obj().Pkg()), iv), ok
	}
	switch u := T.Underlying().(type) {
	case *types.Basic:
		v := get(t)
		if v == nil {
			return "", false
		}
		switch {
		case u.Info()&types.IsBoolean != 0:
			return fmt.Sprintf("%s(%s)", tn, v.atom), v.atom == "true" || v.atom == "false"
		case u.Info()&types.IsInteger != 0:
			iv, ok := sexpInt(v)
			return fmt.Sprintf("%s(%s)", tn, iv), ok
		case u.Info()&types.IsString != 0:
			b, ok := x.bytesLiteral(t, get)
			return fmt.Sprintf("%s(%s)", tn, b), ok
		}
	case *types.Slice:
		if isByte(u.Elem()) {
			b, ok := x.bytesLiteral(t, get)
			return fmt.Sprintf("%s(%s)", tn, b), ok
		}
		srt := x.c.sortOf(T)
		lv := get(sx("len_"+srt, t))
		if lv == nil {
			return "", false
		}
		ls, _ := sexpInt(lv)
		var n int
		fmt.Sscan(ls, &n)
		if n > 8 {
			return "", false
		}
		var els []string
		for i := 0; i < n; i++ {
			e, ok := x.goLiteral(u.Elem(), sx("select", sx("arr_"+srt, t), add(sx("off_"+srt, t), num(int64(i)))), get, q, depth+1)
			if !ok {
				return "", false
			}
			els = append(els, e)
		}
		return fmt.Sprintf("%s{%s}", tn, strings.Join(els, ", ")), true
	case *types.Struct:
		si := x.c.structInfo(T)
		if si == nil {
			return "", false
		}
		var fs []string
		for i, f := range si.Fields {
			if !u.Field(i).Exported() {
				continue
			}
			e, ok := x.goLiteral(f.T, sx(f.Acc, t), get, q, depth+1)
			if !ok {
				return "", false
			}
			fs = append(fs, fmt.Sprintf("%s: %s", f.Name, e))
		}
		return fmt.Sprintf("%s{%s}", tn, strings.Join(fs, ", ")), true
	case *types.Pointer:
		srt := x.c.sortOf(T)
		if srt == "Int" {
			return "", false
		}
		isn := get(fmt.Sprintf("((_ is none_%s) %s)", srt, t))
		if isn != nil && isn.atom == "true" {
			return "nil", true
		}
		e, ok := x.goLiteral(u.Elem(), sx("val_"+srt, t), get, q, depth+1)
		if !ok {
			return "", false
		}
		if _, isStruct := u.Elem().Underlying().(*types.Struct); isStruct {
			return "&" + e, true
		}
		return fmt.Sprintf("func() %s { v := %s; return &v }()", tn, e), true
	}
	return "", false
}

// bytesLiteral: content of a Bytes term: length from the model, bytes from bat where the model defines them,
// otherwise a filler derived from the model's element identity (equal elements -> equal bytes).
func (x *Exec) bytesLiteral(t string, get func(string) *sexp) (string, bool) {
	lv := get(sx("blen", t))
	if lv == nil {
		return "", false
	}
	ls, ok := sexpInt(lv)
	if !ok {
		return "", false
	}
	var n int
	fmt.Sscan(ls, &n)
	if n < 0 || n > 1<<16 {
		return "", false
	}
	id := 0
	if ev := get(t); ev != nil {
		for _, c := range ev.String() {
			id = id*31 + int(c)
		}
	}
	var bs []string
	for i := 0; i < n; i++ {
		b := byte((id*7 + i*13 + 1) & 0xff)
		if i < 40 {
			if bv := get(sx("bat", t, num(int64(i)))); bv != nil {
				if s, ok := sexpInt(bv); ok {
					var k int
					fmt.Sscan(s, &k)
					if k >= 0 && k < 256 && bv.String() != "0" {
						b = byte(k)
					}
				}
			}
		}
		bs = append(bs, fmt.Sprintf("%d", b))
	}
	return "[]byte{" + strings.Join(bs, ",") + "}", true
}

// valueTerms lists the SMT terms whose values goLiteral may ask for.
func (x *Exec) valueTerms(T types.Type, t string, depth int, out *[]string) {
	if depth > 6 {
		return
	}
	switch u := T.Underlying().(type) {
	case *types.Basic:
		if u.Info()&types.IsString != 0 {
			x.bytesTerms(t, out)
			return
		}
		*out = append(*out, t)
	case *types.Slice:
		if isByte(u.Elem()) {
			x.bytesTerms(t, out)
			return
		}
		srt := x.c.sortOf(T)
		*out = append(*out, sx("len_"+srt, t))
		for i := 0; i < 4; i++ {
			x.valueTerms(u.Elem(), sx("select", sx("arr_"+srt, t), add(sx("off_"+srt, t), num(int64(i)))), depth+1, out)
		}
	case *types.Struct:
		if _, special := specialSorts[namedPath(T)]; special {
			*out = append(*out, t)
			return
		}
		si := x.c.structInfo(T)
		if si == nil {
			return
		}
		for _, f := range si.Fields {
			x.valueTerms(f.T, sx(f.Acc, t), depth+1, out)
		}
	case *types.Pointer:
		srt := x.c.sortOf(T)
		if srt == "Int" {
			return
		}
		*out = append(*out, fmt.Sprintf("((_ is none_%s) %s)", srt, t))
		x.valueTerms(u.Elem(), sx("val_"+srt, t), depth+1, out)
	}
}

func (x *Exec) bytesTerms(t string, out *[]string) {
	*out = append(*out, t, sx("blen", t))
	for i := 0; i < 40; i++ {
		*out = append(*out, sx("bat", t, num(int64(i))))
	}
}

// findCandidate returns Go literals for the parameters of x.fn that make the instance fail according to some solver model.
func (x *Exec) findCandidate(o *Oblig, workDir string, timeoutS int) *candidate {
	// replay hints: extra constraints used only while searching for an input (never in a proof)
	extra := ""
	for _, ra := range x.con.ReplayAssume {
		se := x.specEnv(x.entry, x.env0, nil)
		se.where = "replay-assume"
		nd := len(x.entry.decls)
		if t, err := x.evalSpec(se, ra.Expr); err == nil {
			for _, d := range x.entry.decls[nd:] {
				extra += d + "\n"
			}
			extra += "(assert " + t + ")\n"
		}
	}
	x.unfoldLevels = 6
	x.exactDec = true
	q := x.buildQueryExtra(o, false, extra)
	x.unfoldLevels = 0
	x.exactDec = false
	var terms []string
	for _, p := range x.fn.Params {
		v := x.env0[p]
		if v == nil {
			return nil
		}
		if v.Tag != nil {
			continue
		}
		t := v.S
		if v.Ptr != nil {
			t = x.termOf(x.entry, v)
		}
		x.valueTerms(p.Type(), t, 0, &terms)
	}
	if len(terms) == 0 {
		return nil
	}
	getv := "(get-value (" + strings.Join(terms, " ") + "))\n"
	try := func(text, source string, solver solverSpec) *candidate {
		f := filepath.Join(workDir, fmt.Sprintf("cand_%s_%d.smt2", source, time.Now().UnixNano()))
		os.WriteFile(f, []byte(text+"\n"+getv), 0o644)
		r := runSolver(solver, f, timeoutS)
		if r.Status != "sat" {
			return nil
		}
		vals := map[string]*sexp{}
		for _, top := range parseSexps(r.Model) {
			for _, pair := range top.list {
				if len(pair.list) == 2 {
					vals[pair.list[0].String()] = pair.list[1]
				}
			}
		}
		get := func(term string) *sexp {
			k := parseSexps(term)
			if len(k) == 0 {
				return nil
			}
			return vals[k[0].String()]
		}
		c := &candidate{Values: map[string]string{}, Source: source}
		var pkg *types.Package
		if x.fn.Pkg != nil {
			pkg = x.fn.Pkg.Pkg
		}
		c.Imports = map[string]string{}
		q := func(p *types.Package) string {
			if p == pkg {
				return ""
			}
			c.Imports[p.Path()] = p.Name()
			return p.Name()
		}
		for _, p := range x.fn.Params {
			v := x.env0[p]
			if v.Tag != nil {
				c.Args = append(c.Args, "")
				continue
			}
			t := v.S
			if v.Ptr != nil {
				t = x.termOf(x.entry, v)
			}
			lit, ok := x.goLiteral(p.Type(), t, get, q, 0)
			if !ok {
				return nil
			}
			c.Args = append(c.Args, lit)
		}
		for k, v := range vals {
			if len(k) < 60 {
				c.Values[k] = v.String()
			}
		}
		return c
	}
	body := strings.TrimSuffix(strings.TrimSpace(q), "(check-sat)")
	if !strings.Contains(q, "(check-sat)") {
		return nil
	}
	q = body + "\n(check-sat)"
	for _, sp := range []solverSpec{solvers[0], solvers[2]} {
		if c := try(q, "full-model", sp); c != nil {
			return c
		}
		break
	}
	for _, k := range []int{2, 4} {
		rq := relaxQuery(q, k)
		if c := try(rq, fmt.Sprintf("relaxed-model-unroll%d", k), solvers[0]); c != nil {
			return c
		}
	}
	return nil
}

// ---- replay test generation ---------------------------------------------------

// clauseToGo rewrites a spec clause into compilable Go: ==> / implies, == on values via eqv, old(), spec twins.
func clauseToGo(expr string) (string, error) {
	e, err := parser.ParseExpr(preprocessSpec(expr))
	if err != nil {
		return "", err
	}
	e = rewriteGo(e)
	var sb strings.Builder
	if err := printer.Fprint(&sb, token.NewFileSet(), e); err != nil {
		return "", err
	}
	return sb.String(), nil
}

func rewriteGo(e ast.Expr) ast.Expr {
	switch e := e.(type) {
	case *ast.ParenExpr:
		return &ast.ParenExpr{X: rewriteGo(e.X)}
	case *ast.BinaryExpr:
		a, b := rewriteGo(e.X), rewriteGo(e.Y)
		if e.Op == token.EQL || e.Op == token.NEQ {
			call := &ast.CallExpr{Fun: ast.NewIdent("vp_eqv"), Args: []ast.Expr{a, b}}
			if e.Op == token.NEQ {
				return &ast.UnaryExpr{Op: token.NOT, X: call}
			}
			return call
		}
		switch e.Op {
		case token.LSS, token.LEQ, token.GTR, token.GEQ:
			return &ast.BinaryExpr{X: &ast.CallExpr{Fun: ast.NewIdent("vp_cmp"), Args: []ast.Expr{a, b}}, Op: e.Op, Y: &ast.BasicLit{Kind: token.INT, Value: "0"}}
		}
		return &ast.BinaryExpr{X: a, Op: e.Op, Y: b}
	case *ast.UnaryExpr:
		return &ast.UnaryExpr{Op: e.Op, X: rewriteGo(e.X)}
	case *ast.CallExpr:
		var args []ast.Expr
		for _, a := range e.Args {
			args = append(args, rewriteGo(a))
		}
		if id, ok := e.Fun.(*ast.Ident); ok {
			switch id.Name {
			case "implies":
				return &ast.ParenExpr{X: &ast.BinaryExpr{X: &ast.UnaryExpr{Op: token.NOT, X: &ast.ParenExpr{X: args[0]}}, Op: token.LOR, Y: &ast.ParenExpr{X: args[1]}}}
			case "len":
				return &ast.CallExpr{Fun: id, Args: args}
			case "old":
				return &ast.CallExpr{Fun: ast.NewIdent("vp_old"), Args: args}
			}
			return &ast.CallExpr{Fun: ast.NewIdent("vp_" + id.Name), Args: args}
		}
		return &ast.CallExpr{Fun: e.Fun, Args: args}
	case *ast.SelectorExpr:
		return &ast.SelectorExpr{X: rewriteGo(e.X), Sel: e.Sel}
	case *ast.IndexExpr:
		return &ast.IndexExpr{X: rewriteGo(e.X), Index: rewriteGo(e.Index)}
	case *ast.SliceExpr:
		ne := *e
		ne.X = rewriteGo(e.X)
		return &ne
	}
	return e
}

type ReplayResult struct {
	Obligation string     `json:"obligation"`
	Property   string     `json:"property"`
	Function   string     `json:"function"`
	Clause     string     `json:"clause"`
	Candidate  *candidate `json:"candidate,omitempty"`
	Reproduced bool       `json:"reproduced"`
	TestFile   string     `json:"test_source,omitempty"`
	TestOutput string     `json:"test_output,omitempty"`
	Solver     string     `json:"solver_output"`
	FailKind   string     `json:"fail_kind"`
	Trace      string     `json:"path_trace"`
	Query      string     `json:"query_file"`
	How        string     `json:"how"`
}

// replayPure builds and runs an in-package test for a function whose parameters all have literals.
func (x *Exec) replayPure(repo, verif string, o *Oblig, clause Clause, c *candidate, workDir string) (bool, string, string) {
	fn := x.fn
	if fn.Pkg == nil || fn.Parent() != nil {
		return false, "", "closures are not replayed"
	}
	pkg := fn.Pkg.Pkg
	goClause, err := clauseToGo(clause.Expr)
	if err != nil {
		return false, "", "clause not translatable: " + err.Error()
	}
	var sb strings.Builder
	extraImp := ""
	for path, name := range c.Imports {
		if path == "bytes" || path == "reflect" || path == "testing" || path == "math/big" {
			continue
		}
		extraImp += fmt.Sprintf("\t%s %q\n", name, path)
	}
	fmt.Fprintf(&sb, "package %s\n\nimport (\n\t\"testing\"\n\t\"bytes\"\n\t\"reflect\"\n\tvpbig \"math/big\"\n\tvpsha \"crypto/sha256\"\n%s)\n\nvar _ = bytes.Equal\nvar _ = reflect.DeepEqual\nvar _ = vpsha.Sum256\n\n", pkg.Name(), extraImp)
	twins, _ := os.ReadFile(filepath.Join(verif, "replay", "twins.go.txt"))
	sb.Write(twins)
	fmt.Fprintf(&sb, "\nfunc TestVerifReplay(t *testing.T) {\n")
	var call []string
	recv := ""
	for i, p := range fn.Params {
		name := p.Name()
		if name == "" || name == "_" {
			name = fmt.Sprintf("p%d", i)
		}
		if c.Args[i] == "" {
			return false, "", "parameter " + name + " has no literal"
		}
		fmt.Fprintf(&sb, "\t%s := %s\n\t_ = %s\n", name, c.Args[i], name)
		if i == 0 && fn.Signature.Recv() != nil {
			recv = name
			continue
		}
		call = append(call, name)
	}
	res := fn.Signature.Results()
	var rn []string
	nonErr := 0
	for i := 0; i < res.Len(); i++ {
		n := fmt.Sprintf("ret%d", i)
		if isErrorType(res.At(i).Type()) {
			n = "err"
		} else {
			if nonErr == 0 {
				n = "result"
			}
			nonErr++
		}
		rn = append(rn, n)
	}
	callee := fn.Name()
	if recv != "" {
		callee = recv + "." + fn.Name()
	}
	if fn.Signature.Variadic() && len(call) > 0 {
		call[len(call)-1] += "..."
	}
	if len(rn) > 0 {
		fmt.Fprintf(&sb, "\t%s := %s(%s)\n", strings.Join(rn, ", "), callee, strings.Join(call, ", "))
		for _, n := range rn {
			fmt.Fprintf(&sb, "\t_ = %s\n", n)
		}
	} else {
		fmt.Fprintf(&sb, "\t%s(%s)\n", callee, strings.Join(call, ", "))
	}
	fmt.Fprintf(&sb, "\tif !(%s) {\n\t\tt.Fatalf(\"VERIF-REPLAY-VIOLATED %s\")\n\t}\n}\n", goClause, o.Name)
	src := sb.String()
	// write outside the repo, inject with -overlay
	dir := x.prog.SSA.Fset.Position(fn.Pos()).Filename
	pkgDir := filepath.Dir(dir)
	testFile := filepath.Join(workDir, "verif_replay_test.go")
	os.WriteFile(testFile, []byte(src), 0o644)
	ov := map[string]any{"Replace": map[string]string{filepath.Join(pkgDir, "zz_verif_replay_test.go"): testFile}}
	ovb, _ := json.Marshal(ov)
	ovFile := filepath.Join(workDir, "overlay.json")
	os.WriteFile(ovFile, ovb, 0o644)
	rel, _ := filepath.Rel(repo, pkgDir)
	cmd := exec.Command("go", "test", "-overlay", ovFile, "-vet=off", "-count=1", "-timeout", "120s", "-run", "^TestVerifReplay$", "./"+rel)
	cmd.Dir = repo
	cmd.Env = append(os.Environ(), "GOFLAGS=-mod=mod", "GOPROXY=off", "GOSUMDB=off", "GOTOOLCHAIN=local")
	out, _ := cmd.CombinedOutput()
	txt := string(out)
	return strings.Contains(txt, "VERIF-REPLAY-VIOLATED"), src, trunc(txt, 3000)
}

var _ = ssa.Value(nil)
