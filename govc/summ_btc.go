package main

// Dependency summaries for the x/bitcoin deposit path (C03), the hand-over queue (C06) and the
// address functions (C17). Every summary models a PURE dependency function as an uninterpreted
// function of its arguments (always sound for a deterministic, side-effect free callee); the few
// extra facts that are assumed about those functions are listed next to each summary and in
// /verif/notes_ag_btc.md.

import (
	"fmt"
	"go/types"
	"strings"
)

// ufCall declares (once) and applies an uninterpreted function over the SMT terms of args.
func ufCall(x *Exec, s *State, name string, args []*Val, resSort string) string {
	var sig, as []string
	for _, a := range args {
		sig = append(sig, x.c.sortOf(a.T))
		as = append(as, x.termOf(s, a))
	}
	x.c.P.declare(name, fmt.Sprintf("(declare-fun %s (%s) %s)", name, strings.Join(sig, " "), resSort))
	return sx(name, as...)
}

// pureUF: result := name(args...) of the result sort; type invariants of the result assumed.
func pureUF(name string) func(x *Exec, s *State, args []*Val, resT types.Type) (*Val, bool) {
	return func(x *Exec, s *State, args []*Val, resT types.Type) (*Val, bool) {
		rs := x.c.sortOf(resT)
		t := ufCall(x, s, name, args, rs)
		x.assumeInv(s, resT, t)
		return x.valOf(s, resT, t), true
	}
}

// pureUFErr: (T, error) result := (name(args), name_err(args)).
func pureUFErr(name string) func(x *Exec, s *State, args []*Val, resT types.Type) (*Val, bool) {
	return func(x *Exec, s *State, args []*Val, resT types.Type) (*Val, bool) {
		tup, ok := resT.(*types.Tuple)
		if !ok || tup.Len() != 2 {
			return nil, false
		}
		rt := tup.At(0).Type()
		t := ufCall(x, s, name, args, x.c.sortOf(rt))
		e := ufCall(x, s, name+"_err", args, "Int")
		x.assumeInv(s, rt, t)
		return &Val{T: resT, Tup: []*Val{x.valOf(s, rt, t), {T: errType, S: e}}}, true
	}
}

// declUF declares an uninterpreted function unless a contract file already declares it with //@ smt
// (the contract files declare the functions they mention so that callers of a contract see them too).
func declUF(x *Exec, name, sig, res string) {
	if _, ok := x.smtFunSorts[name]; ok {
		return
	}
	x.c.P.declare(name, fmt.Sprintf("(declare-fun %s (%s) %s)", name, sig, res))
}

func init() {
	// collections.Join(a, b): the pair key (a, b)
	summaryRegistry["cosmossdk.io/collections.Join"] = func(x *Exec, s *State, args []*Val, resT types.Type) (*Val, bool) {
		if len(args) != 2 {
			return nil, false
		}
		ps := x.pairSort(x.c.sortOf(args[0].T), x.c.sortOf(args[1].T))
		return &Val{T: resT, S: sx("mk_"+ps, x.termOf(s, args[0]), x.termOf(s, args[1]))}, true
	}

	// bytes.NewReader(b): a non-nil reader r with rdsrc(r) == b
	summaryRegistry["bytes.NewReader"] = func(x *Exec, s *State, args []*Val, resT types.Type) (*Val, bool) {
		x.c.P.declare("rdsrc", "(declare-fun rdsrc (Int) Bytes)")
		r := x.fresh(s, "reader", "Int")
		s.assume(not(eq(r, "0")))
		s.assume(eq(sx("rdsrc", r), x.termOf(s, args[0])))
		return &Val{T: resT, S: r}, true
	}

	// (*wire.MsgTx).DeserializeNoWitness(r): the parser is a deterministic function of the bytes of the reader:
	//   err = txparse_err(raw); on success the message has txnout(raw) outputs, output i being the
	//   non-nil record {Value: txoutval(raw, i), PkScript: txoutscript(raw, i)}.
	// Assumed fact about the parser (btcd wire/msgtx.go checks the output count against
	// maxTxOutPerMessage = 32MiB/9+1): 0 <= txnout(raw) <= 3728271.
	summaryRegistry["(*github.com/btcsuite/btcd/wire.MsgTx).DeserializeNoWitness"] = func(x *Exec, s *State, args []*Val, resT types.Type) (*Val, bool) {
		if len(args) != 2 || args[0].Ptr == nil || args[0].Ptr.Obj == 0 || len(args[0].Ptr.Path) != 0 {
			return nil, false
		}
		rd := args[1]
		if rd.Dyn != nil {
			rd = rd.Dyn
		}
		if rd.S == "" {
			return nil, false
		}
		txT := deref(args[0].T)
		x.c.sortOf(txT)
		si := x.c.structInfo(txT)
		if si == nil {
			return nil, false
		}
		var outAcc, outSort string
		var outT types.Type
		for _, f := range si.Fields {
			if f.Name == "TxOut" {
				outAcc, outSort, outT = f.Acc, f.Sort, f.T
			}
		}
		if outAcc == "" {
			return nil, false
		}
		elT := outT.Underlying().(*types.Slice).Elem() // *wire.TxOut
		optSort := x.c.sortOf(elT)
		osi := x.c.structInfo(deref(elT))
		if osi == nil || !strings.HasPrefix(optSort, "Opt_") {
			return nil, false
		}
		x.c.P.declare("rdsrc", "(declare-fun rdsrc (Int) Bytes)")
		declUF(x, "txparse_err", "Bytes", "Int")
		declUF(x, "txnout", "Bytes", "Int")
		declUF(x, "txoutval", "Bytes Int", "Int")
		declUF(x, "txoutscript", "Bytes Int", "Bytes")
		raw := x.name(s, "rawtx", "Bytes", sx("rdsrc", rd.S))
		obj := args[0].Ptr.Obj
		x.havocObj(s, obj)
		c := s.objs[obj]
		outs := sx(outAcc, c)
		n := sx("txnout", raw)
		el := sx("select", sx("arr_"+outSort, outs), "i!tx")
		rec := sx("val_"+optSort, el)
		var valAcc, pkAcc string
		for _, f := range osi.Fields {
			switch f.Name {
			case "Value":
				valAcc = f.Acc
			case "PkScript":
				pkAcc = f.Acc
			}
		}
		e := sx("txparse_err", raw)
		if _, ok := x.smtFunSorts["parser_ctx"]; ok {
			// marker: this path runs the transaction parser (enables the definitional axiom of taxSpec, see
			// x/bitcoin/types/contracts_verif_deposit.go)
			s.assume("parser_ctx")
		}
		s.assume(and(sx("<=", "0", n), sx("<=", n, "3728271")))
		s.assume(implies(eq(e, "0"), and(eq(sx("off_"+outSort, outs), "0"), eq(sx("len_"+outSort, outs), n))))
		s.assume(implies(eq(e, "0"), fmt.Sprintf("(forall ((i!tx Int)) (! (=> (and (<= 0 i!tx) (< i!tx %s)) (and (not ((_ is none_%s) %s)) (= (%s %s) (txoutval %s i!tx)) (= (%s %s) (txoutscript %s i!tx)))) :pattern (%s)))",
			n, optSort, el, valAcc, rec, raw, pkAcc, rec, raw, el)))
		return &Val{T: errType, S: e}, true
	}

	// relayertypes.EncodePublicKey(pk): the registry key of a relayer public key, a deterministic function of the key record.
	summaryRegistry["github.com/goatnetwork/goat/x/relayer/types.EncodePublicKey"] = func(x *Exec, s *State, args []*Val, resT types.Type) (*Val, bool) {
		if args[0].Ptr != nil {
			x.panicIf(s, args[0].Ptr.Nil, "nil_deref") // v.Key on a nil *PublicKey
		}
		declUF(x, "encpk", x.c.sortOf(args[0].T), "Bytes")
		t := sx("encpk", x.termOf(s, args[0]))
		x.assumeInv(s, resT, t)
		return &Val{T: resT, S: t}, true
	}

	// Constructors of the system ("goat") eth transactions handed over to the execution layer (x/bitcoin/types/ethtx.go):
	// pure functions of their arguments (they only build an ethtypes.Transaction value); the result is a non-nil
	// *ethtypes.Transaction identified with an uninterpreted function of the arguments.
	ethTx := func(name string) func(x *Exec, s *State, args []*Val, resT types.Type) (*Val, bool) {
		return func(x *Exec, s *State, args []*Val, resT types.Type) (*Val, bool) {
			var sig []string
			for _, a := range args {
				sig = append(sig, x.c.sortOf(a.T))
			}
			declUF(x, name, strings.Join(sig, " "), "Int")
			var as []string
			for _, a := range args {
				as = append(as, x.termOf(s, a))
			}
			t := sx(name, as...)
			s.assume(not(eq(t, "0")))
			return &Val{T: resT, S: t}, true
		}
	}
	summaryRegistry[modPath+"/x/bitcoin/types.NewBitcoinHashEthTx"] = ethTx("ethtx_hash")               // (nonce, hash)
	summaryRegistry["(*"+modPath+"/x/bitcoin/types.DepositExecReceipt).EthTx"] = ethTx("ethtx_deposit") // (receipt, nonce)
	summaryRegistry["(*"+modPath+"/x/bitcoin/types.WithdrawalExecReceipt).EthTx"] = ethTx("ethtx_paid") // (receipt, nonce)
	summaryRegistry[modPath+"/x/bitcoin/types.NewRejectEthTx"] = ethTx("ethtx_reject")                  // (withdrawal id, nonce)
}
