package main

import (
	"fmt"
	"go/token"
	"go/types"
	"strings"

	"golang.org/x/tools/go/ssa"
)

func isInt(t types.Type) bool {
	if np := namedPath(t); np != "" {
		if _, ok := specialSorts[np]; ok {
			return false
		}
	}
	b, ok := t.Underlying().(*types.Basic)
	return ok && b.Info()&types.IsInteger != 0
}

func isFloat(t types.Type) bool {
	b, ok := t.Underlying().(*types.Basic)
	return ok && b.Info()&types.IsFloat != 0
}

func isUnsigned(t types.Type) bool {
	b, ok := t.Underlying().(*types.Basic)
	return ok && b.Info()&types.IsUnsigned != 0
}

func (x *Exec) evalValue(s *State, env map[ssa.Value]*Val, fr *Frame, in ssa.Value) *Val {
	switch in := in.(type) {
	case *ssa.Alloc:
		T := deref(in.Type())
		if tg := x.tagForType(in.Type()); tg != nil {
			return &Val{T: in.Type(), Tag: tg}
		}
		id := x.newObj(s, T, in.Comment, x.zeroOf(T), true)
		return &Val{T: in.Type(), Ptr: &Ptr{Obj: id, Nil: "false"}}
	case *ssa.BinOp:
		return x.binop(s, env, in)
	case *ssa.UnOp:
		return x.unop(s, env, in)
	case *ssa.Phi:
		x.fail("phi evaluated outside block entry")
		return nil
	case *ssa.ChangeType:
		v := *x.val(s, env, in.X)
		v.T = in.Type()
		return &v
	case *ssa.ChangeInterface:
		v := *x.val(s, env, in.X)
		v.T = in.Type()
		return &v
	case *ssa.Convert:
		return x.convert(s, env, in)
	case *ssa.MakeInterface:
		xv := x.val(s, env, in.X)
		if isErrorType(in.Type()) {
			t := xv.S
			if xv.Ptr != nil || t == "" || x.c.sortOf(xv.T) != "Int" {
				t = x.fresh(s, "err", "Int")
				s.assume(not(eq(t, "0")))
			}
			return &Val{T: in.Type(), S: t, Dyn: xv}
		}
		id := x.fresh(s, "ifc", "Int")
		s.assume(not(eq(id, "0")))
		// boxed value: dynamic type tag and payload are functions of the interface value
		if fnm, ok := x.boxFn(xv.T); ok {
			s.assume(eq(sx("ifc.dyntag", id), x.c.tagOf(xv.T)))
			s.assume(eq(sx(fnm, id), x.termOf(s, xv)))
		}
		return &Val{T: in.Type(), S: id, Dyn: xv}
	case *ssa.TypeAssert:
		return x.typeAssert(s, env, in)
	case *ssa.Extract:
		t := x.val(s, env, in.Tuple)
		if t.Tup == nil || in.Index >= len(t.Tup) {
			x.fail("extract from non-tuple")
			return x.freshVal(s, in.Type(), "ext")
		}
		return t.Tup[in.Index]
	case *ssa.Field:
		xv := x.val(s, env, in.X)
		if xv.Tag != nil {
			return x.tagField(xv.Tag, in.X.Type(), in.Field, false)
		}
		st := Step{Kind: stField, Field: in.Field}
		t, nt := x.stepTerm(in.X.Type(), x.termOf(s, xv), st)
		if nt == nil {
			x.fail("field of non-struct")
			return x.freshVal(s, in.Type(), "fld")
		}
		x.assumeInv(s, nt, t)
		return x.valOf(s, nt, t)
	case *ssa.FieldAddr:
		xv := x.val(s, env, in.X)
		if xv.Tag != nil {
			return x.tagField(xv.Tag, deref(in.X.Type()), in.Field, true)
		}
		if xv.Ptr == nil {
			x.fail("FieldAddr on non-pointer %s in %s", in.X.Name(), fr.fn.Name())
			return x.freshVal(s, in.Type(), "fa")
		}
		x.panicIf(s, xv.Ptr.Nil, "nil_deref")
		return &Val{T: in.Type(), Ptr: xv.Ptr.ext(Step{Kind: stField, Field: in.Field})}
	case *ssa.IndexAddr:
		return x.indexAddr(s, env, in)
	case *ssa.Index:
		xv := x.val(s, env, in.X)
		iv := x.val(s, env, in.Index)
		t := x.termOf(s, xv)
		srt := x.c.sortOf(in.X.Type())
		var ln string
		if srt == "Bytes" {
			ln = sx("blen", t)
		} else {
			ln = sx("len_"+srt, t)
		}
		x.panicIf(s, or(sx("<", iv.S, "0"), sx(">=", iv.S, ln)), "index_range")
		r, nt := x.stepTerm(in.X.Type(), t, Step{Kind: stIndex, Idx: iv.S})
		x.assumeInv(s, nt, r)
		return x.valOf(s, nt, r)
	case *ssa.Lookup:
		return x.lookup(s, env, in)
	case *ssa.Slice:
		return x.sliceOp(s, env, in)
	case *ssa.MakeSlice:
		return x.makeSlice(s, env, in)
	case *ssa.MakeMap:
		id := x.newObj(s, in.Type(), "map", x.zeroOf(in.Type()), true)
		return &Val{T: in.Type(), Ptr: &Ptr{Obj: id, Nil: "false"}}
	case *ssa.MakeClosure:
		var bs []*Val
		for _, b := range in.Bindings {
			bs = append(bs, x.val(s, env, b))
		}
		return &Val{T: in.Type(), Clo: &Closure{Fn: in.Fn.(*ssa.Function), Bindings: bs}}
	case *ssa.Range:
		return x.rangeInit(s, env, in)
	case *ssa.Next:
		return x.rangeNext(s, env, in)
	case *ssa.Call:
		x.fail("call reached evalValue")
		return nil
	}
	x.fail("unsupported value instruction %T in %s", in, fr.fn.Name())
	return x.freshVal(s, in.Type(), "unk")
}

func isErrorType(t types.Type) bool {
	if n, ok := t.(*types.Named); ok && n.Obj().Pkg() == nil && n.Obj().Name() == "error" {
		return true
	}
	return false
}

// tagField: field access on a keeper token.
func (x *Exec) tagField(tg *Tag, structT types.Type, field int, addr bool) *Val {
	u, ok := structT.Underlying().(*types.Struct)
	if !ok {
		return &Val{T: structT, Tag: &Tag{Kind: tagOpaque}}
	}
	f := u.Field(field)
	ft := f.Type()
	resT := ft
	if addr {
		resT = types.NewPointer(ft)
	}
	np := namedPath(ft)
	if n, ok := ft.(*types.Named); ok && n.Origin() != nil {
		np = namedPath(n.Origin())
	}
	switch {
	case strings.HasPrefix(np, "cosmossdk.io/collections."):
		k := tagColl
		if addr {
			k = tagCollPtr
		}
		return &Val{T: resT, Tag: &Tag{Kind: k, Module: tg.Module, Field: f.Name(), T: ft}}
	case x.tagForType(ft) != nil:
		t2 := x.tagForType(ft)
		if addr {
			t2.Kind = tagKeeperPtr
		}
		return &Val{T: resT, Tag: t2}
	}
	if _, isIfc := ft.Underlying().(*types.Interface); isIfc {
		// a neighbour keeper held through an interface: resolved by the bind table
		ip := namedPath(ft)
		if impl, ok := x.cs.Binds[ip]; ok {
			mod := strings.Split(strings.TrimPrefix(impl, modPath+"/x/"), "/")[0]
			return &Val{T: resT, Tag: &Tag{Kind: tagKeeper, Module: mod, Field: "", T: ft}}
		}
	}
	return &Val{T: resT, Tag: &Tag{Kind: tagOpaque, Module: tg.Module, Field: f.Name(), T: ft}}
}

func (x *Exec) unop(s *State, env map[ssa.Value]*Val, in *ssa.UnOp) *Val {
	xv := x.val(s, env, in.X)
	switch in.Op {
	case token.MUL:
		if g, ok := in.X.(*ssa.Global); ok {
			return x.globalLoad(s, g, in.Type())
		}
		if xv.Tag != nil {
			t := *xv.Tag
			switch t.Kind {
			case tagCollPtr:
				t.Kind = tagColl
			case tagKeeperPtr:
				t.Kind = tagKeeper
			}
			return &Val{T: in.Type(), Tag: &t}
		}
		if xv.Ptr == nil {
			x.fail("deref of non-pointer %s in %s", in.X.Name(), x.fn.Name())
			return x.freshVal(s, in.Type(), "ld")
		}
		x.panicIf(s, xv.Ptr.Nil, "nil_deref")
		if sv := x.sideLoad(xv.Ptr); sv != nil {
			return sv
		}
		return x.load(s, xv.Ptr)
	case token.NOT:
		return &Val{T: in.Type(), S: not(xv.S)}
	case token.SUB:
		if isFloat(in.Type()) {
			return &Val{T: in.Type(), S: sx("fp.neg", xv.S)}
		}
		if isInt(in.Type()) {
			return &Val{T: in.Type(), S: wrapInt(in.Type(), sx("-", xv.S), true, true)}
		}
		return &Val{T: in.Type(), S: sx("-", xv.S)}
	case token.XOR:
		if isInt(in.Type()) && isUnsigned(in.Type()) {
			b := in.Type().Underlying().(*types.Basic)
			bits, _ := intBits(b)
			return &Val{T: in.Type(), S: sx("-", sx("-", pow2(bits), "1"), xv.S)}
		}
		if isInt(in.Type()) {
			return &Val{T: in.Type(), S: sx("-", sx("-", xv.S), "1")}
		}
	}
	x.fail("unsupported unary op %s", in.Op)
	return x.freshVal(s, in.Type(), "un")
}

func (x *Exec) globalLoad(s *State, g *ssa.Global, T types.Type) *Val {
	name := "g." + sanitize(g.Pkg.Pkg.Path()+"."+g.Name())
	srt := x.c.sortOf(T)
	pkg := g.Pkg.Pkg.Path()
	// error sentinels: non-nil, pairwise distinct constants
	if strings.HasPrefix(g.Name(), "Err") || strings.HasPrefix(g.Name(), "err") {
		x.c.P.declare(name, fmt.Sprintf("(declare-const %s Int)", name))
		x.c.errGlobals[name] = true
		x.c.P.axiom("errglobals", []string{name}, "") // placeholder, real axiom rendered by errAxioms
		if _, isPtr := T.Underlying().(*types.Pointer); isPtr {
			return &Val{T: T, S: name}
		}
		return &Val{T: T, S: name}
	}
	if v, ok := x.globalConst(s, g, T); ok {
		return v
	}
	_ = pkg
	if tg := x.tagForType(T); tg != nil {
		return &Val{T: T, Tag: tg}
	}
	// an arbitrary but fixed value (globals are assumed not to change during the call)
	switch T.Underlying().(type) {
	case *types.Pointer, *types.Map:
		x.c.note("global " + g.String() + " read as an unconstrained object")
		return x.freshVal(s, T, "g_"+g.Name())
	}
	x.c.P.declare(name, fmt.Sprintf("(declare-const %s %s)", name, srt))
	x.c.note("global " + g.String() + " read as an uninterpreted constant")
	v := x.valOf(s, T, name)
	x.assumeInv(s, T, name)
	return v
}

func (x *Exec) binop(s *State, env map[ssa.Value]*Val, in *ssa.BinOp) *Val {
	a, b := x.val(s, env, in.X), x.val(s, env, in.Y)
	T := in.X.Type()
	R := in.Type()
	switch in.Op {
	case token.EQL, token.NEQ:
		e := x.equal(s, a, b, T)
		if in.Op == token.NEQ {
			e = not(e)
		}
		return &Val{T: R, S: e}
	}
	if isFloat(T) {
		var t string
		switch in.Op {
		case token.ADD:
			t = sx("fp.add", "RNE", a.S, b.S)
		case token.SUB:
			t = sx("fp.sub", "RNE", a.S, b.S)
		case token.MUL:
			t = sx("fp.mul", "RNE", a.S, b.S)
		case token.QUO:
			t = sx("fp.div", "RNE", a.S, b.S)
		case token.LSS:
			t = sx("fp.lt", a.S, b.S)
		case token.LEQ:
			t = sx("fp.leq", a.S, b.S)
		case token.GTR:
			t = sx("fp.gt", a.S, b.S)
		case token.GEQ:
			t = sx("fp.geq", a.S, b.S)
		default:
			x.fail("unsupported float op %s", in.Op)
			return x.freshVal(s, R, "fop")
		}
		return &Val{T: R, S: t}
	}
	if x.c.sortOf(T) == "Bytes" {
		switch in.Op {
		case token.ADD:
			return &Val{T: R, S: sx("bcat", x.termOf(s, a), x.termOf(s, b))}
		case token.LSS, token.LEQ, token.GTR, token.GEQ:
			fn := "bless"
			x.c.P.declare(fn, "(declare-fun bless (Bytes Bytes) Bool)")
			at, bt := x.termOf(s, a), x.termOf(s, b)
			switch in.Op {
			case token.LSS:
				return &Val{T: R, S: sx(fn, at, bt)}
			case token.GTR:
				return &Val{T: R, S: sx(fn, bt, at)}
			case token.LEQ:
				return &Val{T: R, S: not(sx(fn, bt, at))}
			default:
				return &Val{T: R, S: not(sx(fn, at, bt))}
			}
		}
	}
	if x.c.sortOf(T) == "Bool" {
		switch in.Op {
		case token.AND, token.LAND:
			return &Val{T: R, S: and(a.S, b.S)}
		case token.OR, token.LOR:
			return &Val{T: R, S: or(a.S, b.S)}
		}
	}
	if !isInt(T) {
		x.fail("unsupported binop %s on %s", in.Op, T)
		return x.freshVal(s, R, "bop")
	}
	as, bs := a.S, b.S
	var t string
	switch in.Op {
	case token.ADD:
		t = wrapInt(R, add(as, bs), !isUnsigned(R), true)
		if x.con != nil && x.con.Opts["nooverflow"] != "" {
			x.oblige(s, "nooverflow", "add", intRange(R, add(as, bs)), nil)
		}
	case token.SUB:
		t = wrapInt(R, sub(as, bs), true, !isUnsigned(R))
		if x.con != nil && x.con.Opts["nooverflow"] != "" {
			x.oblige(s, "nooverflow", "sub", intRange(R, sub(as, bs)), nil)
		}
	case token.MUL:
		p := sx("*", as, bs)
		t = x.boundedMul(s, R, p)
		if x.con != nil && x.con.Opts["nooverflow"] != "" {
			x.oblige(s, "nooverflow", "mul", intRange(R, p), nil)
			t = p
		} else if na, ok := isNumLit(as); ok && na >= 0 && na < 1<<20 {
			t = x.boundedMul(s, R, p)
		} else if nb, ok := isNumLit(bs); ok && nb >= 0 && nb < 1<<20 {
			t = x.boundedMul(s, R, p)
		}
	case token.QUO:
		x.panicIf(s, eq(bs, "0"), "div_zero")
		t = goDiv(as, bs, isUnsigned(T))
		if k, ok := isNumLit(bs); !isUnsigned(T) && !(ok && k > 0) {
			t = wrapInt(R, t, false, true)
		}
	case token.REM:
		x.panicIf(s, eq(bs, "0"), "div_zero")
		t = goRem(as, bs, isUnsigned(T))
	case token.AND:
		t = x.bitAnd(s, R, as, bs)
	case token.OR, token.XOR, token.AND_NOT:
		fn := "bitop_" + in.Op.String()
		fn = map[string]string{"bitop_|": "bit_or", "bitop_^": "bit_xor", "bitop_&^": "bit_andnot"}[fn]
		x.c.P.declare(fn, fmt.Sprintf("(declare-fun %s (Int Int) Int)", fn))
		t = sx(fn, as, bs)
		x.c.note("bit operation " + in.Op.String() + " is uninterpreted")
		r := x.name(s, "bop", "Int", t)
		s.assume(intRange(R, r))
		t = r
	case token.SHL:
		if k, ok := isNumLit(bs); ok && k >= 0 && k < 64 {
			t = wrapMod(R, sx("*", as, pow2(int(k))))
		} else {
			x.fail("symbolic shift left")
			return x.freshVal(s, R, "shl")
		}
	case token.SHR:
		if k, ok := isNumLit(bs); ok && k >= 0 && k < 64 {
			if isUnsigned(T) {
				t = sx("div", as, pow2(int(k)))
			} else {
				t = sx("div", as, pow2(int(k))) // floor division = arithmetic shift
			}
		} else {
			x.fail("symbolic shift right")
			return x.freshVal(s, R, "shr")
		}
	case token.LSS:
		t = sx("<", as, bs)
	case token.LEQ:
		t = sx("<=", as, bs)
	case token.GTR:
		t = sx(">", as, bs)
	case token.GEQ:
		t = sx(">=", as, bs)
	default:
		x.fail("unsupported int op %s", in.Op)
		return x.freshVal(s, R, "iop")
	}
	return &Val{T: R, S: t}
}

func (x *Exec) boundedMul(s *State, R types.Type, p string) string {
	return ite(intRange(R, p), p, wrapMod(R, p))
}

func (x *Exec) bitAnd(s *State, R types.Type, a, b string) string {
	if k, ok := isNumLit(b); ok && k >= 0 && (k+1)&k == 0 {
		return sx("mod", a, num(k+1))
	}
	if k, ok := isNumLit(a); ok && k >= 0 && (k+1)&k == 0 {
		return sx("mod", b, num(k+1))
	}
	x.c.P.declare("bit_and", "(declare-fun bit_and (Int Int) Int)")
	x.c.note("bit operation & with non-mask operand is uninterpreted")
	r := x.name(s, "band", "Int", sx("bit_and", a, b))
	s.assume(intRange(R, r))
	return r
}

// Go's truncated division on mathematical integers.
func goDiv(a, b string, unsigned bool) string {
	if unsigned {
		return sx("div", a, b)
	}
	if k, ok := isNumLit(b); ok && k > 0 {
		return ite(sx(">=", a, "0"), sx("div", a, b), sx("-", sx("div", sx("-", a), b)))
	}
	// trunc toward zero
	return ite(sx(">=", a, "0"), ite(sx(">", b, "0"), sx("div", a, b), sx("-", sx("div", a, sx("-", b)))),
		ite(sx(">", b, "0"), sx("-", sx("div", sx("-", a), b)), sx("div", sx("-", a), sx("-", b))))
}

func goRem(a, b string, unsigned bool) string {
	if unsigned {
		return sx("mod", a, b)
	}
	if k, ok := isNumLit(b); ok && k > 0 {
		return ite(sx(">=", a, "0"), sx("mod", a, b), sx("-", sx("mod", sx("-", a), b)))
	}
	return ite(sx(">=", a, "0"), sx("mod", a, ite(sx(">", b, "0"), b, sx("-", b))), sx("-", sx("mod", sx("-", a), ite(sx(">", b, "0"), b, sx("-", b)))))
}

func (x *Exec) equal(s *State, a, b *Val, T types.Type) string {
	switch T.Underlying().(type) {
	case *types.Pointer, *types.Map, *types.Signature, *types.Slice:
		an, bn := x.isNilConst(a), x.isNilConst(b)
		switch {
		case an && bn:
			return "true"
		case an:
			return x.nilCond(s, b)
		case bn:
			return x.nilCond(s, a)
		}
		if a.Ptr != nil && b.Ptr != nil && a.Ptr.Obj == b.Ptr.Obj && pathKey(a.Ptr) == pathKey(b.Ptr) {
			return not(a.Ptr.Nil)
		}
		x.c.note("pointer comparison between distinct lvalues is unconstrained")
		return x.fresh(s, "ptreq", "Bool")
	case *types.Interface:
		if isErrorType(T) || true {
			return eq(x.termOf(s, a), x.termOf(s, b))
		}
	}
	return eq(x.termOf(s, a), x.termOf(s, b))
}

func (x *Exec) isNilConst(v *Val) bool {
	if v.Ptr != nil && v.Ptr.Nil == "true" && v.Ptr.Obj == 0 {
		return true
	}
	if _, ok := v.T.Underlying().(*types.Slice); ok && v.SRef == nil && (v.S == "bempty" || strings.HasPrefix(v.S, "(mk_Slc_") && strings.HasSuffix(v.S, " 0 0)") && (strings.Contains(v.S, "as const") || strings.Contains(v.S, "zarr!"))) {
		return true
	}
	if _, ok := v.T.Underlying().(*types.Signature); ok && v.S == "0" && v.Clo == nil && v.Fn == nil {
		return true
	}
	return false
}

func (x *Exec) nilCond(s *State, v *Val) string {
	switch {
	case v.Ptr != nil:
		return v.Ptr.Nil
	case v.SRef != nil:
		return "false"
	case v.Clo != nil || v.Fn != nil:
		return "false"
	}
	srt := x.c.sortOf(v.T)
	switch {
	case srt == "Bytes":
		// nil and empty byte slices are identified (protobuf decoding does the same)
		x.c.note("nil and empty []byte are identified")
		return eq(sx("blen", v.S), "0")
	case strings.HasPrefix(srt, "Slc_"):
		x.c.note("nil and empty slices are identified")
		return eq(sx("len_"+srt, v.S), "0")
	case srt == "Int":
		return eq(v.S, "0")
	}
	return "false"
}

func (x *Exec) convert(s *State, env map[ssa.Value]*Val, in *ssa.Convert) *Val {
	xv := x.val(s, env, in.X)
	from, to := in.X.Type(), in.Type()
	switch {
	case isInt(from) && isInt(to):
		fb, tb := from.Underlying().(*types.Basic), to.Underlying().(*types.Basic)
		fbits, fs := intBits(fb)
		tbits, ts := intBits(tb)
		t := xv.S
		switch {
		case fs == ts && tbits >= fbits:
		case !fs && ts && tbits > fbits:
		case !fs && !ts && tbits < fbits:
			t = sx("mod", t, pow2(tbits))
		case fs && !ts && tbits >= fbits:
			t = ite(sx("<", t, "0"), sx("+", t, pow2(tbits)), t)
		case !fs && ts && tbits == fbits:
			t = ite(sx(">=", t, pow2(tbits-1)), sx("-", t, pow2(tbits)), t)
		default:
			t = wrapMod(to, t)
		}
		return &Val{T: to, S: t}
	case isInt(from) && isFloat(to):
		// exact for |x| < 2^53; otherwise rounding (RNE) as in Go
		return &Val{T: to, S: sx("(_ to_fp 11 53)", "RNE", sx("to_real", xv.S))}
	case isFloat(from) && isInt(to):
		x.c.P.declare("fp2int", "(declare-fun fp2int (Float64) Int)")
		r := x.fresh(s, "f2i", "Int")
		// truncation toward zero of a finite value
		rt := sx("fp.to_real", sx("fp.roundToIntegral", "RTZ", xv.S))
		s.assume(eq(sx("to_real", r), rt))
		s.assume(intRange(to, r))
		return &Val{T: to, S: r}
	case x.c.sortOf(from) == "Bytes" && x.c.sortOf(to) == "Bytes":
		return &Val{T: to, S: x.termOf(s, xv)}
	case isFloat(from) && isFloat(to):
		return &Val{T: to, S: xv.S}
	}
	if _, ok := from.Underlying().(*types.Pointer); ok {
		v := *xv
		v.T = to
		return &v
	}
	x.fail("unsupported conversion %s -> %s", from, to)
	return x.freshVal(s, to, "cv")
}

func (x *Exec) typeAssert(s *State, env map[ssa.Value]*Val, in *ssa.TypeAssert) *Val {
	xv := x.val(s, env, in.X)
	mk := func(v *Val, ok string) *Val {
		if in.CommaOk {
			return &Val{T: in.Type(), Tup: []*Val{v, {T: types.Typ[types.Bool], S: ok}}}
		}
		return v
	}
	if xv.Dyn != nil {
		if types.Identical(xv.Dyn.T, in.AssertedType) {
			return mk(xv.Dyn, "true")
		}
		if _, isIfc := in.AssertedType.Underlying().(*types.Interface); isIfc {
			if types.Implements(xv.Dyn.T, in.AssertedType.Underlying().(*types.Interface)) {
				v := *xv
				v.T = in.AssertedType
				return mk(&v, "true")
			}
		}
		if !in.CommaOk {
			x.panicIf(s, "true", "type_assert")
		}
		return mk(x.zeroVal(s, in.AssertedType), "false")
	}
	// unknown dynamic type
	var okc string
	var v *Val
	if _, isIfc := in.AssertedType.Underlying().(*types.Interface); isIfc {
		okc = x.fresh(s, "taok", "Bool")
		nv := *xv
		nv.T = in.AssertedType
		v = &nv
	} else if fnm, ok := x.boxFn(in.AssertedType); ok && xv.S != "" {
		okc = and(not(eq(xv.S, "0")), eq(sx("ifc.dyntag", xv.S), x.c.tagOf(in.AssertedType)))
		v = x.valOf(s, in.AssertedType, sx(fnm, xv.S))
		if v.Ptr != nil {
			// a boxed pointer of the asserted type is non-nil when the assertion succeeds (protobuf oneof wrappers)
		}
	} else {
		okc = x.fresh(s, "taok", "Bool")
		v = x.freshVal(s, in.AssertedType, "ta")
		if v.Ptr != nil {
			v.Ptr.Nil = "false"
		}
	}
	if !in.CommaOk {
		x.panicIf(s, not(okc), "type_assert")
	}
	return mk(v, okc)
}

func (x *Exec) zeroVal(s *State, T types.Type) *Val {
	switch T.Underlying().(type) {
	case *types.Pointer:
		return &Val{T: T, Ptr: &Ptr{Obj: 0, Nil: "true"}}
	case *types.Map:
		id := x.newObj(s, T, "nilmap", x.zeroOf(T), true)
		return &Val{T: T, Ptr: &Ptr{Obj: id, Nil: "true"}}
	}
	if tg := x.tagForType(T); tg != nil {
		return &Val{T: T, Tag: tg}
	}
	return &Val{T: T, S: x.zeroOf(T)}
}

// sliceLen returns the length term of a slice/string/array-pointer value.
func (x *Exec) sliceLen(s *State, v *Val) string {
	switch {
	case v.SRef != nil:
		return v.SRef.Len
	case v.Ptr != nil:
		if a, ok := deref(v.T).Underlying().(*types.Array); ok {
			return fmt.Sprint(a.Len())
		}
		if _, ok := v.T.Underlying().(*types.Map); ok {
			x.fail("len of map")
			return "0"
		}
	}
	srt := x.c.sortOf(v.T)
	if a, ok := v.T.Underlying().(*types.Array); ok {
		return fmt.Sprint(a.Len())
	}
	if srt == "Bytes" {
		return sx("blen", v.S)
	}
	if strings.HasPrefix(srt, "Slc_") {
		return sx("len_"+srt, v.S)
	}
	x.fail("len of unsupported value of type %s", v.T)
	return "0"
}

func (x *Exec) indexAddr(s *State, env map[ssa.Value]*Val, in *ssa.IndexAddr) *Val {
	xv := x.val(s, env, in.X)
	iv := x.val(s, env, in.Index)
	ln := x.sliceLen(s, xv)
	x.panicIf(s, or(sx("<", iv.S, "0"), sx(">=", iv.S, ln)), "index_range")
	switch {
	case xv.SRef != nil:
		return &Val{T: in.Type(), Ptr: &Ptr{Obj: xv.SRef.Obj, Path: []Step{{Kind: stIndex, Idx: add(xv.SRef.Off, iv.S)}}, Nil: "false"}}
	case xv.Ptr != nil: // pointer to array
		x.panicIf(s, xv.Ptr.Nil, "nil_deref")
		return &Val{T: in.Type(), Ptr: xv.Ptr.ext(Step{Kind: stIndex, Idx: iv.S})}
	case xv.Origin != nil:
		// the slice value was loaded from an lvalue: index into that lvalue. Sound as long as the
		// lvalue still holds the same slice; check syntactically.
		if lt := x.loadTerm(s, xv.Origin); lt == xv.S || lt == xv.OriginTerm {
			return &Val{T: in.Type(), Ptr: xv.Origin.ext(Step{Kind: stIndex, Idx: iv.S})}
		}
	}
	// value-form slice of unknown origin: a read-only temp object
	id := x.newObj(s, xv.T, "tmp", x.termOf(s, xv), false)
	x.objMeta[id].Name = "tmpslice"
	return &Val{T: in.Type(), Ptr: &Ptr{Obj: id, Path: []Step{{Kind: stIndex, Idx: iv.S}}, Nil: "false"}}
}

func (x *Exec) lookup(s *State, env map[ssa.Value]*Val, in *ssa.Lookup) *Val {
	xv := x.val(s, env, in.X)
	kv := x.val(s, env, in.Index)
	if mt, ok := in.X.Type().Underlying().(*types.Map); ok {
		if xv.Ptr == nil {
			x.fail("lookup in unknown map")
			return x.freshVal(s, in.Type(), "lk")
		}
		ms := x.mapSort(mt)
		cur := x.loadTerm(s, xv.Ptr)
		kt := x.termOf(s, kv)
		has := sx("select", sx("dom_"+ms, cur), kt)
		vt := ite(has, sx("select", sx("val_"+ms, cur), kt), x.zeroOf(mt.Elem()))
		vt = x.name(s, "mv", x.c.sortOf(mt.Elem()), vt)
		x.assumeInv(s, mt.Elem(), vt)
		v := x.valOf(s, mt.Elem(), vt)
		if in.CommaOk {
			return &Val{T: in.Type(), Tup: []*Val{v, {T: types.Typ[types.Bool], S: has}}}
		}
		return v
	}
	// string index
	t := x.termOf(s, xv)
	x.panicIf(s, or(sx("<", kv.S, "0"), sx(">=", kv.S, sx("blen", t))), "index_range")
	return &Val{T: in.Type(), S: sx("bat", t, kv.S)}
}

func (x *Exec) sliceOp(s *State, env map[ssa.Value]*Val, in *ssa.Slice) *Val {
	xv := x.val(s, env, in.X)
	ln := x.sliceLen(s, xv)
	lo, hi := "0", ln
	if in.Low != nil {
		lo = x.val(s, env, in.Low).S
	}
	if in.High != nil {
		hi = x.val(s, env, in.High).S
	}
	// bounds: 0 <= lo <= hi <= cap; capacity is not modelled, the length is used (A-append)
	x.panicIf(s, or(sx("<", lo, "0"), sx(">", lo, hi), sx(">", hi, ln)), "slice_range")
	T := in.Type()
	switch {
	case xv.Ptr != nil: // pointer to array
		x.panicIf(s, xv.Ptr.Nil, "nil_deref")
		if len(xv.Ptr.Path) == 0 {
			return &Val{T: T, SRef: &SRef{Obj: xv.Ptr.Obj, Off: lo, Len: sub(hi, lo)}}
		}
		t := x.loadTerm(s, xv.Ptr)
		return x.sliceTerm(s, T, t, lo, hi, in.X.Type())
	case xv.SRef != nil:
		return &Val{T: T, SRef: &SRef{Obj: xv.SRef.Obj, Off: add(xv.SRef.Off, lo), Len: sub(hi, lo)}}
	}
	return x.sliceTerm(s, T, xv.S, lo, hi, in.X.Type())
}

func (x *Exec) sliceTerm(s *State, T types.Type, t, lo, hi string, XT types.Type) *Val {
	srt := x.c.sortOf(deref(XT))
	if srt == "Bytes" {
		if lo == "0" && hi == sx("blen", t) {
			return &Val{T: T, S: t}
		}
		return &Val{T: T, S: sx("bsub", t, lo, hi)}
	}
	return &Val{T: T, S: sx("mk_"+srt, sx("arr_"+srt, t), add(sx("off_"+srt, t), lo), sub(hi, lo))}
}

func (x *Exec) makeSlice(s *State, env map[ssa.Value]*Val, in *ssa.MakeSlice) *Val {
	ln := x.val(s, env, in.Len).S
	x.panicIf(s, sx("<", ln, "0"), "makeslice_len")
	T := in.Type()
	srt := x.c.sortOf(T)
	var content string
	if srt == "Bytes" {
		content = sx("bzeros", ln)
	} else {
		et := T.Underlying().(*types.Slice).Elem()
		content = fmt.Sprintf("(mk_%s %s 0 %s)", srt, x.c.constArr("Int", x.c.sortOf(et), x.zeroOf(et)), ln)
	}
	id := x.newObj(s, T, "mk", content, true)
	return &Val{T: T, SRef: &SRef{Obj: id, Off: "0", Len: ln}}
}

// boxFn: the payload accessor of interface values holding a value of type T.
func (x *Exec) boxFn(T types.Type) (string, bool) {
	if _, isIfc := T.Underlying().(*types.Interface); isIfc {
		return "", false
	}
	srt := x.c.sortOf(T)
	if _, isMap := T.Underlying().(*types.Map); isMap {
		return "", false
	}
	x.c.P.declare("ifc.dyntag", "(declare-fun ifc.dyntag (Int) Int)")
	name := "ifc.as." + sanitize(strings.TrimPrefix(strings.ReplaceAll(T.String(), modPath+"/", ""), "*"))
	if _, isPtr := T.Underlying().(*types.Pointer); isPtr {
		name += ".ptr"
	}
	x.c.P.declare(name, fmt.Sprintf("(declare-fun %s (Int) %s)", name, srt))
	return name, true
}
