package main

import (
	"fmt"
	"go/token"
	"go/types"
	"sort"
	"strings"

	"golang.org/x/tools/go/ssa"
)

// ---------------------------------------------------------------------------
// C07: effect contract "deterministic" for everything reachable from the
// consensus entry points, checked on the SSA call graph of the real code:
//   - no call of a wall-clock, randomness, environment or runtime-introspection
//     function, no goroutine / select / channel operation;
//   - every `range` over a Go map must be order-insensitive: here, it must not
//     contain a return (the first failing element would decide the result) —
//     unless the function's contract declares the returns dead
//     (`//@ opt maporder<k>=returns-dead: reason`, listed as an assumption).
// Entry points are derived from the code: exported methods of the msgServer
// types, BeginBlock/EndBlock/InitGenesis of the modules, the ante decorator.
// Interface calls are resolved by class-hierarchy analysis inside /repo;
// dependency functions are assumed deterministic except the deny list.
// ---------------------------------------------------------------------------

var nondetDeny = []string{
	"time.Now", "time.Since", "time.Until", "time.After", "time.Tick", "time.NewTimer", "time.Sleep",
	"math/rand.", "math/rand/v2.", "crypto/rand.", "os.Getenv", "os.Environ", "os.Hostname", "os.Getpid", "os.LookupEnv",
	"runtime.NumGoroutine", "runtime.NumCPU", "runtime.GOMAXPROCS", "runtime.Stack", "runtime.Caller", "runtime.ReadMemStats",
	"(*sync.Map).Range",
	// concurrency inside state-changing consensus code: results then depend on the goroutine schedule
	"(*golang.org/x/sync/errgroup.Group).Go", "(*golang.org/x/sync/errgroup.Group).TryGo", "(*sync.WaitGroup).Go",
}

type effectFinding struct {
	fn   *ssa.Function
	what string
}

func isEntryPoint(key string, fn *ssa.Function) bool {
	if fn.Parent() != nil || fn.Signature.Recv() == nil {
		return strings.HasSuffix(key, "/module.InitGenesis")
	}
	switch {
	case strings.Contains(key, "/keeper.(msgServer).") && token.IsExported(fn.Name()):
		return true
	case strings.Contains(key, "/module.(AppModule).BeginBlock"), strings.Contains(key, "/module.(AppModule).EndBlock"),
		strings.Contains(key, "/module.(AppModule).InitGenesis"):
		return true
	case strings.HasSuffix(key, "/app.(GoatGuardHandler).AnteHandle"):
		return true
	}
	return false
}

// repoImpls: /repo methods that may be the target of an interface call.
func repoImpls(prog *Program, recvT types.Type, m *types.Func) []*ssa.Function {
	it, ok := recvT.Underlying().(*types.Interface)
	if !ok {
		return nil
	}
	var out []*ssa.Function
	seen := map[*ssa.Function]bool{}
	for _, p := range prog.SSA.AllPackages() {
		if !strings.HasPrefix(p.Pkg.Path(), modPath) {
			continue
		}
		for _, mem := range p.Members {
			tn, ok := mem.(*ssa.Type)
			if !ok {
				continue
			}
			for _, T := range []types.Type{tn.Type(), types.NewPointer(tn.Type())} {
				if !types.Implements(T, it) {
					continue
				}
				sel := prog.SSA.MethodSets.MethodSet(T).Lookup(m.Pkg(), m.Name())
				if sel == nil {
					continue
				}
				if f := prog.SSA.MethodValue(sel); f != nil && f.Pkg != nil && len(f.Blocks) > 0 && !seen[f] && strings.HasPrefix(f.Pkg.Pkg.Path(), modPath) && !strings.Contains(f.Pkg.Pkg.Path(), "/testutil") {
					seen[f] = true
					out = append(out, f)
				}
			}
		}
	}
	return out
}

func effectScan(prog *Program, cs *ContractSet) ([]*ObligSummary, []string, []string) {
	var entries []string
	for k, fn := range prog.Funcs {
		if isEntryPoint(k, fn) {
			entries = append(entries, k)
		}
	}
	sort.Strings(entries)
	// per-function local findings, memoised
	local := map[*ssa.Function][]string{}
	callees := map[*ssa.Function][]*ssa.Function{}
	mapRanges := map[*ssa.Function][]mapRange{}
	var notes []string
	noteSet := map[string]bool{}
	note := func(s string) {
		if !noteSet[s] {
			noteSet[s] = true
			notes = append(notes, s)
		}
	}
	var analyse func(fn *ssa.Function)
	analyse = func(fn *ssa.Function) {
		if _, ok := local[fn]; ok {
			return
		}
		local[fn] = nil
		loops := (&Exec{loops: map[*ssa.Function]map[*ssa.BasicBlock]*LoopInfo{}}).loopsOf(fn)
		add := func(s string) { local[fn] = append(local[fn], s) }
		for _, b := range fn.Blocks {
			for _, in := range b.Instrs {
				switch in := in.(type) {
				case *ssa.Go:
					add("go statement")
				case *ssa.Select:
					add("select statement")
				case *ssa.Send:
					add("channel send")
				case *ssa.UnOp:
					if in.Op == token.ARROW {
						add("channel receive")
					}
				case *ssa.Store:
					// process-local mutable state: a write to a package-level variable survives the transaction and
					// differs between replicas (restart, replay, different call history)
					if g := globalRoot(in.Addr); g != nil {
						add("write to package-level variable " + g.Pkg.Pkg.Name() + "." + g.Name())
					}
				case *ssa.MapUpdate:
					if g := globalRoot(in.Map); g != nil {
						add("write to package-level map " + g.Pkg.Pkg.Name() + "." + g.Name())
					}
				case *ssa.Range:
					if _, isMap := in.X.Type().Underlying().(*types.Map); isMap {
						mapRanges[fn] = append(mapRanges[fn], mapRange{fn: fn, rng: in, loops: loops})
					}
				case *ssa.MakeClosure:
					if f, ok := in.Fn.(*ssa.Function); ok {
						callees[fn] = append(callees[fn], f)
					}
				case ssa.CallInstruction:
					cc := in.Common()
					if cc.IsInvoke() {
						impls := repoImpls(prog, cc.Value.Type(), cc.Method)
						callees[fn] = append(callees[fn], impls...)
						if len(impls) == 0 {
							note("interface call into a dependency assumed deterministic: " + namedPath(cc.Value.Type()) + "." + cc.Method.Name())
						}
						continue
					}
					if f := cc.StaticCallee(); f != nil {
						if f.Pkg != nil && strings.HasPrefix(f.Pkg.Pkg.Path(), modPath) && len(f.Blocks) > 0 {
							callees[fn] = append(callees[fn], f)
							continue
						}
						name := f.String()
						// atomics / sync.Map on a package-level variable: process-local mutable state (sync.Pool is exempt:
						// pooled scratch objects are reset before use)
						if (strings.Contains(name, "sync/atomic.") || strings.HasPrefix(name, "(*sync.Map).")) && len(cc.Args) > 0 {
							if g := globalRoot(cc.Args[0]); g != nil {
								add("atomic operation " + f.Name() + " on package-level variable " + g.Pkg.Pkg.Name() + "." + g.Name())
							}
						}
						for _, d := range nondetDeny {
							if name == d || (strings.HasSuffix(d, ".") && strings.HasPrefix(name, d)) {
								add("call of " + name)
							}
						}
						continue
					}
					if _, isBuiltin := cc.Value.(*ssa.Builtin); !isBuiltin {
						note("dynamic call through a function value in " + shortFuncName(fn) + " not followed")
					}
				}
			}
		}
		for _, c := range callees[fn] {
			analyse(c)
		}
	}
	var obs []*ObligSummary
	reachAll := map[*ssa.Function]bool{}
	for _, k := range entries {
		fn := prog.Funcs[k]
		analyse(fn)
		// reachable set
		reach := map[*ssa.Function]bool{}
		var stack = []*ssa.Function{fn}
		for len(stack) > 0 {
			f := stack[len(stack)-1]
			stack = stack[:len(stack)-1]
			if reach[f] {
				continue
			}
			reach[f] = true
			reachAll[f] = true
			stack = append(stack, callees[f]...)
		}
		var bad []string
		for f := range reach {
			for _, w := range local[f] {
				bad = append(bad, shortFuncName(f)+": "+w)
			}
		}
		sort.Strings(bad)
		o := &ObligSummary{Name: shortFuncName(fn) + "/effects.deterministic_sources", Props: []string{"C07"}, Paths: len(reach), Solver: "ssa-callgraph", Status: "discharged"}
		if len(bad) > 0 {
			o.Status, o.FailKind, o.Output = "failed", "effect", strings.Join(bad, "\n")
		}
		obs = append(obs, o)
	}
	// map-ordered loops in reachable functions
	var fns []*ssa.Function
	for f := range reachAll {
		if len(mapRanges[f]) > 0 {
			fns = append(fns, f)
		}
	}
	sort.Slice(fns, func(i, j int) bool { return funcKey(fns[i]) < funcKey(fns[j]) })
	var assumptions []string
	for _, f := range fns {
		sort.Slice(mapRanges[f], func(i, j int) bool { return mapRanges[f][i].rng.Pos() < mapRanges[f][j].rng.Pos() })
		for k, mr := range mapRanges[f] {
			o := &ObligSummary{Name: fmt.Sprintf("%s/maporder.maprange%d", shortFuncName(f), k), Props: []string{"C07"}, Paths: 1, Solver: "ssa-loop-scan", Status: "discharged"}
			rets := mr.returnsInside()
			if rets > 0 {
				reason := ""
				if con := cs.ByKey[funcKey(f)]; con != nil {
					reason = con.Opts[fmt.Sprintf("maporder%d", k)]
				}
				if strings.HasPrefix(reason, "returns-dead") {
					assumptions = append(assumptions, fmt.Sprintf("%s map-ordered loop %d: %d return(s) inside the loop declared dead by the contract (%s) — not proved", shortFuncName(f), k, rets, reason))
				} else {
					o.Status, o.FailKind = "failed", "effect"
					o.Output = fmt.Sprintf("%d return statement(s) inside a loop that ranges over a Go map: which element fails first decides the result (error class, gas) — the result depends on map iteration order", rets)
				}
			}
			obs = append(obs, o)
		}
	}
	sort.Strings(notes)
	return obs, notes, assumptions
}

type mapRange struct {
	fn    *ssa.Function
	rng   *ssa.Range
	loops map[*ssa.BasicBlock]*LoopInfo
}

// returnsInside counts Return instructions in the natural loop driven by this range.
func (m mapRange) returnsInside() int {
	// the loop whose header contains the Next of this range
	var li *LoopInfo
	for _, ref := range *m.rng.Referrers() {
		if nx, ok := ref.(*ssa.Next); ok {
			if l, ok := m.loops[nx.Block()]; ok {
				li = l
			}
		}
	}
	if li == nil {
		return 0
	}
	n := 0
	for b := range li.Blocks {
		for _, sc := range b.Succs {
			if li.Blocks[sc] {
				continue
			}
			// an exit edge other than the loop's own "done" edge from the header: does it return?
			if b == li.Head {
				continue
			}
			if len(sc.Instrs) > 0 {
				if _, isRet := sc.Instrs[len(sc.Instrs)-1].(*ssa.Return); isRet {
					n++
				}
			}
		}
		if len(b.Instrs) > 0 {
			if _, isRet := b.Instrs[len(b.Instrs)-1].(*ssa.Return); isRet {
				n++
			}
		}
	}
	return n
}

// globalRoot: the package-level variable an address or value is derived from (through field/index addressing and
// loads of pointers/maps held in globals), or nil.
func globalRoot(v ssa.Value) *ssa.Global {
	for i := 0; i < 8 && v != nil; i++ {
		switch t := v.(type) {
		case *ssa.Global:
			return t
		case *ssa.FieldAddr:
			v = t.X
		case *ssa.IndexAddr:
			v = t.X
		case *ssa.UnOp:
			if t.Op != token.MUL {
				return nil
			}
			v = t.X
		default:
			return nil
		}
	}
	return nil
}
