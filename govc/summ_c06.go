package main

// Summaries for the locking side of the hand-over queue and the byte comparison of VerifyDequeue (C06).
// ASSUMPTIONS: the two constructors in x/locking/types/ethtx.go only build an ethtypes.Transaction from
// their arguments (pure; result non-nil, identified with an uninterpreted function of (record, nonce));
// (*ethtypes.Transaction).MarshalBinary is a deterministic function of the transaction (ethtx_bytes) that
// may fail (error unconstrained).

import (
	"go/types"
	"strings"
)

func init() {
	ethTx := func(name string) func(x *Exec, s *State, args []*Val, resT types.Type) (*Val, bool) {
		return func(x *Exec, s *State, args []*Val, resT types.Type) (*Val, bool) {
			var sig, as []string
			for _, a := range args {
				sig = append(sig, x.c.sortOf(a.T))
				as = append(as, x.termOf(s, a))
			}
			declUF(x, name, strings.Join(sig, " "), "Int")
			t := sx(name, as...)
			s.assume(not(eq(t, "0")))
			return &Val{T: resT, S: t}, true
		}
	}
	summaryRegistry["(*"+modPath+"/x/locking/types.Reward).EthTx"] = ethTx("ethtx_reward") // (reward, nonce)
	summaryRegistry["(*"+modPath+"/x/locking/types.Unlock).EthTx"] = ethTx("ethtx_unlock") // (unlock, nonce)
	summaryRegistry["(*github.com/ethereum/go-ethereum/core/types.Transaction).MarshalBinary"] = func(x *Exec, s *State, args []*Val, resT types.Type) (*Val, bool) {
		tup, ok := resT.(*types.Tuple)
		if !ok || tup.Len() != 2 {
			return nil, false
		}
		declUF(x, "ethtx_bytes", "Int", "Bytes")
		b := sx("ethtx_bytes", x.termOf(s, args[0]))
		e := x.fresh(s, "marshal_err", "Int")
		return &Val{T: resT, Tup: []*Val{x.valOf(s, tup.At(0).Type(), b), {T: errType, S: e}}}, true
	}
}
