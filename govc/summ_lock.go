package main

import (
	"fmt"
	"go/types"
	"strings"
)

// walkRanges: content term of a collections.Range object built by (&Range{}).EndInclusive(t) -> the term of t.
var walkRanges = map[string]string{}

// ---------------------------------------------------------------------------
// Summaries for x/locking (validator punishment, unlock queue).
// ---------------------------------------------------------------------------

func fieldIndex(T types.Type, name string) int {
	u, ok := T.Underlying().(*types.Struct)
	if !ok {
		return -1
	}
	for i := 0; i < u.NumFields(); i++ {
		if u.Field(i).Name() == name {
			return i
		}
	}
	return -1
}

func init() {
	R := summaryRegistry

	// (sdk.Context).ConsensusParams: a fixed (per context) value, A-comet. The type is an opaque record of the
	// consensus engine; its fields are read through the engine's uninterpreted field functions. For specifications
	// the three values the evidence handler looks at get names:
	//   ctxEvSet()             cp.Evidence != nil
	//   ctxEvMaxAgeDuration()  cp.Evidence.MaxAgeDuration (ns)
	//   ctxEvMaxAgeNumBlocks() cp.Evidence.MaxAgeNumBlocks
	consParams := func(x *Exec, s *State, a []*Val, resT types.Type) (*Val, bool) {
		if x.c.sortOf(resT) != "Int" {
			return nil, false
		}
		c := "ctxConsensusParams"
		x.c.P.declare(c, fmt.Sprintf("(declare-const %s Int)", c))
		fi := fieldIndex(resT, "Evidence")
		if fi < 0 {
			return nil, false
		}
		ev, evPT := x.stepTerm(resT, c, Step{Kind: stField, Field: fi})
		if evPT == nil || x.c.sortOf(evPT) != "Int" {
			return nil, false
		}
		evT := deref(evPT)
		di, bi := fieldIndex(evT, "MaxAgeDuration"), fieldIndex(evT, "MaxAgeNumBlocks")
		if di < 0 || bi < 0 {
			return nil, false
		}
		dur, _ := x.stepTerm(evT, ev, Step{Kind: stField, Field: di})
		blk, _ := x.stepTerm(evT, ev, Step{Kind: stField, Field: bi})
		// the spec-level names are declared by the contract file (`//@ smt (declare-fun ctxEvSet () Bool) ...`), so that
		// contracts mentioning them can also be used at call sites where this summary never runs; link them here
		if x.smtFunSorts["ctxEvSet"] == "Bool" && x.smtFunSorts["ctxEvMaxAgeDuration"] == "Int" && x.smtFunSorts["ctxEvMaxAgeNumBlocks"] == "Int" {
			s.assume(eq("ctxEvSet", not(eq(ev, "0"))))
			s.assume(eq("ctxEvMaxAgeDuration", dur))
			s.assume(eq("ctxEvMaxAgeNumBlocks", blk))
		}
		return &Val{T: resT, S: c}, true
	}
	R["(github.com/cosmos/cosmos-sdk/types.Context).ConsensusParams"] = consParams
	R["ctx.ConsensusParams"] = consParams

	// KeySet.Set with write-site obligations: the engine's built-in summary of collections.KeySet.Set does not call
	// the write-site hook (only Item.Set and Map.Set do). This wrapper evaluates the `//@ writesite <module>.<KeySet>`
	// clauses (key and val both denote the inserted key) and then applies the built-in summary unchanged.
	R["(cosmossdk.io/collections.KeySet).Set"] = func(x *Exec, s *State, args []*Val, resT types.Type) (*Val, bool) {
		if len(args) < 3 || args[0].Tag == nil || (args[0].Tag.Kind != tagColl && args[0].Tag.Kind != tagCollPtr) {
			return nil, false
		}
		ci := x.collInfo(args[0].Tag)
		if ci.Kind != "KeySet" {
			return nil, false
		}
		x.writeHook(s, ci, args[2], args[2])
		return x.collCall(s, "Set", args, resT)
	}

	// ---- collections.Range / Map.Walk -------------------------------------------------------------------
	// (&collections.Range[K]{}).EndInclusive(t): the range "every key <= t" (only this shape is supported).
	R["(*cosmossdk.io/collections.Range).EndInclusive"] = func(x *Exec, s *State, args []*Val, resT types.Type) (*Val, bool) {
		p := args[0]
		if p.Ptr == nil || len(p.Ptr.Path) != 0 || s.objs[p.Ptr.Obj] != "0" {
			return nil, false // not a freshly zero-initialised Range
		}
		r := x.fresh(s, "range", "Int")
		x.storeTerm(s, p.Ptr, r)
		walkRanges[r] = x.termOf(s, args[1])
		return &Val{T: resT, Ptr: &Ptr{Obj: p.Ptr.Obj, Nil: "false"}}, true
	}

	// Map.Walk(ctx, ranger, f) by induction over a ghost sequence (A-store: the iterator yields exactly the stored
	// entries whose key lies in the range, in increasing key order).
	//   ghost symbols (declared by the contract file in an `//@ smt` block, because the closure's own proof uses them):
	//     walkn () Int, walkkey (Int) K, walkval (Int) V, walkrank (K) Int, and `//@ const walki = walkstep`.
	//   The closure f must carry a contract whose requires/ensures speak about step `walki`:
	//     requires ...  key == walkkey(walki) && value == walkval(walki) && INV(walki)
	//     ensures  walk_continues: result == false && err == nil
	//     ensures  ...  INV(walki + 1)
	//     modifies <captured variables>
	//   (no old() in these clauses). The closure is verified on its own (`govc func 'Parent$1'`) = induction step.
	//   Here: obligation INV(0) (the requires at step 0 in the current state), havoc of the closure's modifies,
	//   then  walkn == 0 => nothing changed,  walkn > 0 => the ensures at step walkn-1.
	R["(cosmossdk.io/collections.Map).Walk"] = func(x *Exec, s *State, args []*Val, resT types.Type) (*Val, bool) {
		if len(args) < 4 || args[0].Tag == nil || (args[0].Tag.Kind != tagColl && args[0].Tag.Kind != tagCollPtr) || args[3].Clo == nil {
			return nil, false
		}
		ci := x.collInfo(args[0].Tag)
		if ci.Kind != "Map" || ci.KSort != "Int" {
			return nil, false
		}
		rv := args[2]
		if rv.Dyn != nil {
			rv = rv.Dyn
		}
		if rv.Ptr == nil {
			return nil, false
		}
		end, ok := walkRanges[x.loadTerm(s, rv.Ptr)]
		if !ok {
			return nil, false
		}
		clo := args[3].Clo
		con, ok := x.cs.ByKey[funcKey(clo.Fn)]
		if !ok || len(clo.Fn.Params) != 2 || len(clo.Bindings) != len(clo.Fn.FreeVars) {
			x.c.note("Map.Walk: the closure has no contract: treated as unknown call")
			return nil, false
		}
		cont := false
		for _, c := range append(append([]Clause{}, con.Requires...), con.Ensures...) {
			if strings.Contains(c.Expr, "old(") {
				x.fail("Map.Walk: old() in the contract of %s", con.Key)
				return nil, false
			}
		}
		for _, e := range con.Ensures {
			if e.Label == "walk_continues" && strings.Join(strings.Fields(e.Expr), "") == "result==false&&err==nil" {
				cont = true
			}
		}
		if !cont {
			x.fail("Map.Walk: contract of %s lacks `ensures walk_continues: result == false && err == nil`", con.Key)
			return nil, false
		}
		if x.counter["walk"] > 0 {
			x.fail("Map.Walk: only one Walk per function is supported (fixed ghost names)")
			return nil, false
		}
		x.counter["walk"]++
		x.usedContracts[con.Key] = true
		x.c.note("A-store: collections.Map.Walk = closure applied to the stored entries of the range in increasing key order (induction over the closure contract " + con.Key + ")")
		dom := x.stGet(s, ci.Name+".dom", fmt.Sprintf("(Array %s Bool)", ci.KSort))
		val := x.stGet(s, ci.Name+".val", fmt.Sprintf("(Array %s %s)", ci.KSort, ci.VSort))
		// the ghost sequence
		s.assume("(>= walkn 0)")
		s.assume(fmt.Sprintf("(forall ((i Int)) (! (=> (and (<= 0 i) (< i walkn)) (and (select %s (walkkey i)) (<= (walkkey i) %s) (= (walkval i) (select %s (walkkey i))) (= (walkrank (walkkey i)) i))) :pattern ((walkkey i)) :pattern ((walkval i))))", dom, end, val))
		s.assume(fmt.Sprintf("(forall ((k Int)) (! (=> (and (select %s k) (<= k %s)) (and (<= 0 (walkrank k)) (< (walkrank k) walkn) (= (walkkey (walkrank k)) k))) :pattern ((walkrank k)) :pattern ((select %s k))))", dom, end, dom))
		s.assume("(forall ((i Int) (j Int)) (! (=> (and (<= 0 i) (< i j) (< j walkn)) (< (walkkey i) (walkkey j))) :pattern ((walkkey i) (walkkey j))))")
		var pkg *types.Package
		if par := clo.Fn.Parent(); par != nil && par.Pkg != nil {
			pkg = par.Pkg.Pkg
		}
		mkEnv := func(k string) *SpecEnv {
			vars := map[string]*Val{}
			vars[clo.Fn.Params[0].Name()] = x.valOf(s, clo.Fn.Params[0].Type(), sx("walkkey", k))
			vars[clo.Fn.Params[1].Name()] = x.valOf(s, clo.Fn.Params[1].Type(), sx("walkval", k))
			for i, fv := range clo.Fn.FreeVars {
				vars[fv.Name()] = clo.Bindings[i]
			}
			vars["walki"] = &Val{T: mathInt, S: k}
			return &SpecEnv{x: x, s: s, vars: vars, pkg: pkg, bound: map[string]string{}, lets: con.Lets}
		}
		// base case
		se := mkEnv("0")
		for i, r := range con.Requires {
			lbl := r.Label
			if lbl == "" {
				lbl = fmt.Sprint(i)
			}
			se.where = fmt.Sprintf("Walk: %s requires.%s at step 0", con.Key, lbl)
			t, err := x.evalSpec(se, r.Expr)
			if err != nil {
				x.fail("%v", err)
				continue
			}
			if x.disc == nil {
				x.oblige(s, "walk."+clo.Fn.Name()+".base", lbl, t, nil)
			}
		}
		// havoc what the closure modifies
		var same []string
		for _, m := range con.Modifies {
			if strings.HasPrefix(m, "st.") {
				x.fail("Map.Walk: closure %s modifies keeper state (%s): unsupported", con.Key, m)
				return nil, false
			}
			for i, fv := range clo.Fn.FreeVars {
				if fv.Name() == m && clo.Bindings[i].Ptr != nil && clo.Bindings[i].Ptr.Obj != 0 {
					id := clo.Bindings[i].Ptr.Obj
					old := s.objs[id]
					x.havocObj(s, id)
					same = append(same, eq(s.objs[id], old))
				}
			}
		}
		s.assume(implies("(= walkn 0)", and(same...)))
		// the last step
		se = mkEnv("(- walkn 1)")
		sig := clo.Fn.Signature.Results()
		for i := 0; i < sig.Len(); i++ {
			rv := x.freshVal(s, sig.At(i).Type(), "walkres")
			se.vars[fmt.Sprintf("ret%d", i)] = rv
			if isErrorType(sig.At(i).Type()) {
				se.vars["err"] = rv
			} else if _, ok := se.vars["result"]; !ok {
				se.vars["result"] = rv
			}
		}
		for _, e := range con.Ensures {
			se.where = fmt.Sprintf("Walk: %s ensures.%s at the last step", con.Key, e.Label)
			t, err := x.evalSpec(se, e.Expr)
			if err != nil {
				x.fail("%v", err)
				continue
			}
			s.assume(implies("(> walkn 0)", t))
		}
		return &Val{T: resT, S: "0"}, true
	}

	// pkg/crypto.CompressP256k1Pubkey: pure; an uninterpreted function of the 64-byte key with a 33-byte result.
	// (Inlining it makes the engine emit the undeclared symbol `bbyte` for the store into the []byte{0x03} literal.)
	R[modPath+"/pkg/crypto.CompressP256k1Pubkey"] = func(x *Exec, s *State, args []*Val, resT types.Type) (*Val, bool) {
		x.c.P.declare("compressPubkey", "(declare-fun compressPubkey (Bytes) Bytes)")
		t := sx("compressPubkey", x.termOf(s, args[0]))
		s.assume(eq(sx("blen", t), "33"))
		return &Val{T: resT, S: t}, true
	}
}
