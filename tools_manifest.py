#!/usr/bin/env python3
"""Regenerates MANIFEST.json from claims.json (the per-property claim texts) and properties.jsonl."""
import json, subprocess
props=[json.loads(l) for l in open('/verif/properties.jsonl')]
claims=json.load(open('/verif/claims.json'))
commits=subprocess.run(['git','-C','/repo','log','--format=%h %s'],capture_output=True,text=True).stdout.splitlines()
hook_commits=[c.split()[0] for c in commits if c.split(' ',1)[1].startswith('verif:')]
checks=[];na=[]
for p in props:
    c=claims.get(p['id'])
    if c and c.get('claimed'):
        checks.append({"property_id":p['id'],"quick_cmd":"./check %s --tier quick"%p['id'],"thorough_cmd":"./check %s --tier thorough"%p['id'],
          "evidence_file":"/verif/evidence/%s.json"%p['id'],"replay_cmd_template":"cat {path}","engine":"govc",
          "level_claimed":{"category":"proof","text":c['text'],"design_ref":"DESIGN.md section 4, %s"%p['id']},
          "level_note":c['note'],"technique":c.get('technique',"contract-based deductive verification: weakest-precondition style VCs generated from go/ssa of the real code under comment contracts, discharged by z3/cvc5")})
    else:
        na.append({"property_id":p['id'],"reason":(c or {}).get('reason',"check not built yet (build in progress; see DESIGN.md section 9)")})
m={"version":1,"setup_cmd":"./setup.sh","hooks":{"guard":"verif","enable":"go build -tags verif (contracts are comment-only files contracts_verif.go guarded by //go:build verif)","baseline_off_cmd":"cd /repo && go test -vet=off -count=1 ./...","source_commits":hook_commits,"add_only":True},
"engines":[{"name":"govc","path":"/verif/govc","serves_properties":[c['property_id'] for c in checks],"kind_free_text":"self-written VC generator over go/ssa of the real code + contracts in //go:build verif comment files; obligations discharged by z3-new/z3/cvc5; counterexamples replayed with go test -overlay"}],
"checks":checks,"notes":"see DESIGN.md; KNOWN_FINDINGS.txt lists fixed/known findings; selftest/mutants.json is the must-fail corpus","not_applicable":na}
json.dump(m,open('/verif/MANIFEST.json','w'),indent=1)
print(len(checks),'claimed',len(na),'n/a')
