#!/bin/bash
# usage: tools_seed.sh <Cxx> [worktree label] [name under /verif/seeded]  — confirm a seeded change made by a sub-agent in /tmp/seed_<label>, keep it under
# /verif/seeded/<label>, run the property's check against it (applied to /repo, undone right afterwards).
export GOFLAGS=-mod=mod GOPROXY=off GOSUMDB=off GOTOOLCHAIN=local
id=$1; label=${2:-$1}; d=/tmp/seed_$label; out=/verif/seeded/${3:-$label}
set -u
[ -f $d/SEED/patch.diff ] || { echo "no patch"; exit 1; }
mkdir -p $out; cp $d/SEED/* $out/ 2>/dev/null
pkg=$(python3 -c "import json;print(json.load(open('$out/meta.json')).get('demo_pkg','').strip('./'))")
cd $d
log=$out/confirm.log; : > $log
echo "== build with change" >> $log; go build ./... >> $log 2>&1; b=$?
echo "== full suite with change (demo test moved aside)" >> $log
demo=$(ls $d/$pkg/zz_seed_demo_test.go 2>/dev/null); [ -n "$demo" ] && mv $demo /tmp/seed_demo_$label.go
go test -vet=off -count=1 $(go list ./... | grep -v '/SEED') 2>&1 | grep -v "no test files" | tail -12 >> $log; s=${PIPESTATUS[0]}
[ -n "$demo" ] && mv /tmp/seed_demo_$label.go $demo
echo "== demo with change" >> $log; go test -vet=off -count=1 -run TestSeedDemo ./$pkg >> $log 2>&1; w=$?
echo "== demo without change" >> $log
git stash push -q -- $(git diff --name-only -- '*.go' ':!*_test.go' ':!*contracts_verif*') ; go test -vet=off -count=1 -run TestSeedDemo ./$pkg >> $log 2>&1; wo=$?; git stash pop -q
echo "build=$b suite=$s demo_with_change=$w demo_without=$wo" | tee -a $log
if [ $b -ne 0 ] || [ $s -ne 0 ] || [ $w -eq 0 ] || [ $wo -ne 0 ]; then echo "NOT CONFIRMED"; exit 2; fi
# run the check against the change
cd /repo && git apply $out/patch.diff || { echo "patch does not apply to /repo"; exit 3; }
cp /verif/evidence/$id.json /var/tmp/evidence_$id.bak 2>/dev/null  # the evidence file must describe /repo itself, not the seeded tree
cd /verif && ./bin/govc check $id > $out/check_output.txt 2>&1; rc=$?
cp /verif/evidence/$id.json $out/evidence_with_change.json 2>/dev/null; mv /var/tmp/evidence_$id.bak /verif/evidence/$id.json 2>/dev/null
git -C /repo checkout -- . 
echo "check exit=$rc"; grep -c "^VIOLATION" $out/check_output.txt; grep "^VIOLATION" $out/check_output.txt | sed 's/.*obligation=//' | head -5
python3 - <<PY
import json
m=json.load(open('$out/meta.json'))
m['confirmed']={'build_with_change':$b==0,'suite_with_change':$s==0,'demo_fails_with_change':$w!=0,'demo_passes_without':$wo==0,'check_exit':$rc,'violations':[l.split('obligation=')[1].strip() for l in open('$out/check_output.txt') if l.startswith('VIOLATION')]}
json.dump(m,open('$out/meta.json','w'),indent=1)
PY
