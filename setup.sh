#!/bin/sh
# Builds the verification engine offline and warms the build cache of /repo (tag verif).
set -e
export GOFLAGS=-mod=mod GOPROXY=off GOSUMDB=off GOTOOLCHAIN=local
cd "$(dirname "$0")"
mkdir -p bin evidence replays work
(cd govc && go build -o ../bin/govc .)
REPO=${VERIF_REPO:-/repo}
(cd "$REPO" && go list -export -tags=verif ./x/... ./app/... ./pkg/... >/dev/null 2>&1 || true)
(cd "$REPO" && go test -vet=off -count=1 -run '^$' ./x/... ./pkg/... ./app/... >/dev/null 2>&1 || true)
echo "setup ok"
