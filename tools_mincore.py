#!/usr/bin/env python3
"""Minimise an unsat SMT query to a small set of path assertions (debug aid). usage: tools_mincore.py file.smt2"""
import subprocess, sys
s=open(sys.argv[1]).read().replace('(get-model)','')
lines=s.split('\n')
def ax(l):
    return any(l.startswith('(assert (forall ((%s '%v) for v in ['b','a','c','n','e','p','i','k']) or 'define-fun' in l
idx=[i for i,l in enumerate(lines) if l.startswith('(assert') and not ax(l)]
idxset=set(idx)
def run(keep,t=int(sys.argv[3]) if len(sys.argv)>3 else 5):
    ks=set(keep)
    txt='\n'.join(l for i,l in enumerate(lines) if (i not in idxset) or (i in ks))
    open('/tmp/dd.smt2','w').write(txt)
    return subprocess.run(['z3-new','-T:%d'%t,'/tmp/dd.smt2'],capture_output=True,text=True).stdout.split('\n')[0]
print('full:',run(idx))
lo,hi=0,len(idx)-1
while lo<hi:
    mid=(lo+hi)//2
    if run(idx[:mid+1])=='unsat': hi=mid
    else: lo=mid+1
keep=idx[:lo+1]
chunk=16
while chunk>=1:
    i=0
    while i < len(keep)-1:
        k2=keep[:i]+keep[i+chunk:]
        if run(k2)=='unsat': keep=k2
        else: i+=chunk
    chunk//=2
print(len(keep))
for i in keep: print(lines[i][:int(sys.argv[2]) if len(sys.argv)>2 else 500])
